package main

import (
	"fmt"
	"go/types"
	"strings"

	"golang.org/x/tools/go/ssa"
)

func init() {
	register(&PropSpec{
		ID:        "C14",
		Pkgs:      []string{"./pkg/raftlog"},
		Technique: "static analysis: SSA edge-dominance guards (cache publication and success only after a pebble.Sync commit; snapshot bytes only behind checksum/size equalities; manifest commit only after fsynced no-overwrite publish), write-option census, who-may-call confinement, channel-send shape, dropped-error scan",
		Explain:   "Decides the durability mechanism of the Raft log storage, not its equivalence with a reference storage. (R1) every Pebble commit/direct write in pkg/raftlog passes pebble.Sync; the group writer creates the only batch, hands that same batch to every writeOp.apply, commits it once, assigns db.stateCache and returns nil only behind Commit == nil, never commits or publishes after a failed apply/load, and the worker sends the flush error of the batch to the done channel of every request of that batch (submitWrite returns exactly that value); every Batch.Set/DeleteRange in the write ops targets the batch parameter; no storage error is dropped. (R2) snapshotStore.read returns data only behind manifest validation, a per-chunk checksum equality before each append, the total-size equality and the whole-checksum equality; a chunk file is accepted only with the exact expected size; a stale snapshot save returns raft.ErrSnapOutOfDate before anything is staged (writer and planner), and a same-index save must match the stored manifest. (R3) chunk files are written by writeSyncedFile (success only behind Write, full length and Sync), the temp directory and its parent are fsynced before the manifest is validated, publishFinal is a RENAME_NOREPLACE rename followed by a parent fsync, and the manifest row is submitted to the Pebble writer only after publishFinal succeeded; the injectable write/fsync hooks are never reassigned outside the test helper, which has no production caller. NOT decided: equivalence with raft.MemoryStorage (InitialState/Entries/Term/FirstIndex/LastIndex contents), the reader-side never-below-the-compaction-point clause (Entries/Term are plain key lookups with no comparison guard to check; Term returns 0,nil for an index it does not hold), cached-tail replacement arithmetic in saveOp.apply, behaviour after an actual crash, Pebble/rename/fsync semantics (trusted).",
		Run:       c14,
		Mutants: []Mutant{
			{Name: "committed-flag-raised-before-commit", File: "pkg/raftlog/pebble_writer.go", Old: "\tif db.writeCommitTestHook != nil {", New: "\tcommitted = true\n\tif db.writeCommitTestHook != nil {", Expect: "C14/R1-commit/*flushWriteRequests#raise the flag*"},
			{Name: "same-index-save-skips-whole-checksum", File: "pkg/raftlog/pebble_store.go", Old: "|| !bytes.Equal(snapshotChecksum(snap.Data), manifest.WholeChecksum) {", New: "|| !bytes.Equal(snapshotChecksum(snap.Data), snapshotChecksum(snap.Data)) {", Expect: "C14/R2-stale/*planSnapshotSave*WholeChecksum*"},
			{Name: "commit-nosync", File: "pkg/raftlog/pebble_writer.go", Old: "batch.Commit(pebble.Sync)", New: "batch.Commit(pebble.NoSync)", Expect: "C14/R1-sync/*flushWriteRequests*"},
			{Name: "persist-meta-nosync", File: "pkg/raftlog/pebble_reader.go", Old: "return s.db.db.Set(encodeGroupStateKey(s.scope), data, pebble.Sync)", New: "return s.db.db.Set(encodeGroupStateKey(s.scope), data, pebble.NoSync)", Expect: "C14/R1-sync/*persistMeta*"},
			{Name: "statecache-before-commit", File: "pkg/raftlog/pebble_writer.go", Old: "\tif err := batch.Commit(pebble.Sync); err != nil {\n\t\treturn err\n\t}\n\tfor scope, state := range stateCache {\n\t\tdb.stateCache[scope] = cloneScopeWriteState(*state, false)\n\t}\n", New: "\tfor scope, state := range stateCache {\n\t\tdb.stateCache[scope] = cloneScopeWriteState(*state, false)\n\t}\n\tif err := batch.Commit(pebble.Sync); err != nil {\n\t\treturn err\n\t}\n", Expect: "C14/R1-commit/*flushWriteRequests*"},
			{Name: "apply-error-ignored", File: "pkg/raftlog/pebble_writer.go", Old: "\t\t\tif err := req.op.apply(batch, state, &pebbleStore{db: db, scope: req.scope}); err != nil {\n\t\t\t\treturn err\n\t\t\t}", New: "\t\t\t_ = req.op.apply(batch, state, &pebbleStore{db: db, scope: req.scope})", Expect: "C14/R1-*"},
			{Name: "worker-acks-without-error", File: "pkg/raftlog/pebble_writer.go", Old: "\t\t\treq.done <- err\n", New: "\t\t\t_ = err\n\t\t\treq.done <- nil\n", Expect: "C14/R1-done/*"},
			{Name: "worker-acks-only-first-request", File: "pkg/raftlog/pebble_writer.go", Old: "\t\tfor _, req := range reqs {\n\t\t\treq.done <- err\n\t\t\tclose(req.done)\n\t\t}", New: "\t\tfor _, req := range reqs[:1] {\n\t\t\treq.done <- err\n\t\t\tclose(req.done)\n\t\t}", Expect: "C14/R1-done/*"},
			{Name: "flush-swallows-commit-error", File: "pkg/raftlog/pebble_writer.go", Old: "\tif err := batch.Commit(pebble.Sync); err != nil {\n\t\treturn err\n\t}\n\tfor scope, state := range stateCache {", New: "\t_ = batch.Commit(pebble.Sync)\n\tfor scope, state := range stateCache {", Expect: "C14/R1-*"},
			{Name: "second-batch-for-meta", File: "pkg/raftlog/pebble_writer.go", Old: "\tstate.meta.AppliedIndex = op.index\n\treturn store.setMeta(batch, state.meta)", New: "\tstate.meta.AppliedIndex = op.index\n\tside := store.db.db.NewBatch()\n\tdefer side.Close()\n\tif err := store.setMeta(side, state.meta); err != nil {\n\t\treturn err\n\t}\n\treturn side.Commit(pebble.Sync)", Expect: "C14/R1-batch/*"},
			{Name: "read-skips-chunk-checksum", File: "pkg/raftlog/snapshot_store.go", Old: "\t\tif !checksumEqual(snapshotChecksum(chunk), manifest.ChunkChecksums[i]) {\n\t\t\treturn raftpb.Snapshot{}, errors.New(\"raftstorage: invalid snapshot chunk checksum\")\n\t\t}\n", New: "", Expect: "C14/R2-read/*snapshotStore.read*"},
			{Name: "read-skips-whole-checksum", File: "pkg/raftlog/snapshot_store.go", Old: "\tif !checksumEqual(snapshotChecksum(data), manifest.WholeChecksum) {\n\t\treturn raftpb.Snapshot{}, errors.New(\"raftstorage: invalid snapshot whole checksum\")\n\t}\n", New: "", Expect: "C14/R2-read/*snapshotStore.read*"},
			{Name: "chunk-size-not-checked", File: "pkg/raftlog/snapshot_store.go", Old: "if info.Size() < 0 || uint64(info.Size()) != expectedSize {", New: "if info.Size() < 0 {", Expect: "C14/R2-read/*readSnapshotChunkFile*"},
			{Name: "stale-snapshot-accepted", File: "pkg/raftlog/pebble_writer.go", Old: "\t\tif st.Snapshot.Index < state.snapshot.Metadata.Index {\n\t\t\treturn raft.ErrSnapOutOfDate\n\t\t}\n", New: "", Expect: "C14/R2-stale/*saveOp.apply*"},
			{Name: "planner-stale-nonstrict", File: "pkg/raftlog/pebble_store.go", Old: "\tif snap.Metadata.Index < manifest.Index {\n\t\treturn snapshotSavePlan{}, raft.ErrSnapOutOfDate\n\t}\n\tif snap.Metadata.Index > manifest.Index {", New: "\tif snap.Metadata.Index+1 < manifest.Index {\n\t\treturn snapshotSavePlan{}, raft.ErrSnapOutOfDate\n\t}\n\tif snap.Metadata.Index > manifest.Index {", Expect: "C14/R2-stale/*planSnapshotSave*"},
			{Name: "chunk-write-without-sync-check", File: "pkg/raftlog/snapshot_store.go", Old: "\tif syncErr != nil {\n\t\treturn syncErr\n\t}\n\treturn closeErr\n}\n\nfunc readSnapshotChunkFile", New: "\t_ = syncErr\n\treturn closeErr\n}\n\nfunc readSnapshotChunkFile", Expect: "C14/R3-publish/*writeSyncedFile*"},
			{Name: "tmpdir-not-fsynced", File: "pkg/raftlog/snapshot_store.go", Old: "\tif err := snapshotFsyncDir(staged.tmpDir); err != nil {\n\t\treturn err\n\t}\n\treturn staged.manifest.Validate(", New: "\treturn staged.manifest.Validate(", Expect: "C14/R3-publish/*snapshotStore.write*"},
			{Name: "publish-without-parent-fsync", File: "pkg/raftlog/snapshot_store.go", Old: "\treturn snapshotFsyncDir(filepath.Dir(staged.finalDir))", New: "\treturn nil", Expect: "C14/R3-publish/*publishFinal*"},
			{Name: "commit-manifest-despite-publish-error", File: "pkg/raftlog/pebble_store.go", Old: "\tif err := db.snapshotStore.publishFinal(staged); err != nil {\n\t\tdb.removePublishedSnapshotDirIfRenamed(staged)\n\t\treturn cleanupStagedTmpPreservingError(staged, err)\n\t}", New: "\tif err := db.snapshotStore.publishFinal(staged); err != nil {\n\t\tdb.removePublishedSnapshotDirIfRenamed(staged)\n\t}", Expect: "C14/R3-publish/*publishSnapshotAndCommit*"},
			{Name: "rename-may-overwrite", File: "pkg/raftlog/snapshot_rename_linux.go", Old: "unix.RENAME_NOREPLACE", New: "0", Expect: "C14/R3-publish/*renameNoOverwrite*"},
		},
	})
}

const c14P = "pkg/raftlog."

// c14GlobalStores: the package-level function variable is assigned only in the allowed functions.
func c14GlobalStores(c *Ctx, rule, global string, allowed ...string) {
	n := 0
	var bad []string
	var badPos string
	for _, fn := range c.P.AllFuncs {
		for _, b := range fn.Blocks {
			for _, in := range b.Instrs {
				st, ok := in.(*ssa.Store)
				if !ok {
					continue
				}
				g, ok := st.Addr.(*ssa.Global)
				if !ok || Path(g) != global {
					continue
				}
				n++
				name := c.P.Name(fn)
				if !globAny(allowed, name) && !globAny(allowed, rootName(name)) {
					bad = append(bad, name+" at "+c.P.InstrPos(in))
					if badPos == "" {
						badPos = c.P.InstrPos(in)
					}
				}
			}
		}
	}
	construct := "global-stores:" + global
	switch {
	case len(bad) > 0:
		c.add("confine", rule, construct, Violated, badPos, "durability hook "+global+" is reassigned outside "+strings.Join(allowed, ",")+": "+strings.Join(bad, "; "))
	case n == 0:
		c.add("confine", rule, construct, Undecided, "", "no store to the global found, not even its initialiser (renamed?)")
	default:
		c.add("confine", rule, construct, Held, "", fmt.Sprintf("%d store(s), all in %v", n, allowed))
	}
}

// c14DoneSends: in the write worker every send on a request's done channel
// carries the flush result of exactly the slice the request was taken from.
func c14DoneSends(c *Ctx, rule string, fn *ssa.Function) {
	if fn == nil {
		return
	}
	const flush = c14P + "DB.flushWriteRequests(db, "
	n := 0
	var bad []string
	var pos string
	for _, b := range fn.Blocks {
		for _, in := range b.Instrs {
			s, ok := in.(*ssa.Send)
			if !ok {
				continue
			}
			ch, v := Path(s.Chan), Path(s.X)
			if !strings.HasSuffix(ch, ".done") {
				continue
			}
			n++
			pos = c.P.InstrPos(in)
			if !strings.HasPrefix(v, flush) || !strings.HasSuffix(v, ")") {
				bad = append(bad, fmt.Sprintf("sends %s (not the flush result) at %s", v, pos))
				continue
			}
			batch := v[len(flush) : len(v)-1]
			if !strings.HasPrefix(ch, batch+"[") || !strings.HasSuffix(ch, "].done") {
				bad = append(bad, fmt.Sprintf("done channel %s does not belong to the flushed batch %s", ch, batch))
				continue
			}
			// the send sits in a loop bounded by len(batch)
			bounded := false
			for _, lb := range fn.Blocks {
				if len(lb.Instrs) == 0 {
					continue
				}
				if iff, ok := lb.Instrs[len(lb.Instrs)-1].(*ssa.If); ok {
					if a, ok := condAtom(iff.Cond, true); ok && a.Op == "<" && a.R == "len("+batch+")" && lb.Dominates(b) {
						bounded = true
					}
				}
			}
			if !bounded {
				bad = append(bad, "the acknowledging loop is not bounded by len(batch) at "+pos)
			}
		}
	}
	construct := c.P.Name(fn) + "#done<-flush-error"
	switch {
	case n == 0:
		c.add("shape", rule, construct, Undecided, c.P.Pos(fn.Pos()), "no send on a request's done channel found (vacuous)")
	case len(bad) > 0:
		c.add("shape", rule, construct, Violated, pos, strings.Join(bad, "; "))
	default:
		c.add("shape", rule, construct, Held, pos, fmt.Sprintf("%d send(s): every request of the flushed slice receives that flush's error", n))
	}
}

// c14DeferFlagRaised: a store of the constant true into a local bool that a deferred closure of fn
// captures (the "this flush committed" flag the deferred cleanup tests).
func c14DeferFlagRaised(fn *ssa.Function) Effect {
	flags := map[ssa.Value]bool{}
	if fn != nil {
		for _, b := range fn.Blocks {
			for _, in := range b.Instrs {
				d, ok := in.(*ssa.Defer)
				if !ok {
					continue
				}
				mc, ok := d.Call.Value.(*ssa.MakeClosure)
				if !ok {
					continue
				}
				for _, bind := range mc.Bindings {
					if a, ok := bind.(*ssa.Alloc); ok {
						if bt, ok := a.Type().Underlying().(*types.Pointer).Elem().Underlying().(*types.Basic); ok && bt.Kind() == types.Bool {
							flags[a] = true
						}
					}
				}
			}
		}
	}
	return InstrFn{"raise the flag read by the deferred cleanup", func(in ssa.Instruction) bool {
		st, ok := in.(*ssa.Store)
		return ok && flags[st.Addr] && c09IsConstTrue(st.Val)
	}}
}

func c14(c *Ctx) {
	const pb = c09Pebble
	commit := CallTo{pb + "Batch.Commit"}
	const commitOK = pb + "Batch.Commit(*) == nil"

	// ---- R1: the group writer ---------------------------------------------------
	c09PebbleWritesSync(c, "R1-sync", 3)
	flush := c.Fn(c14P + "DB.flushWriteRequests")
	c.ConfineCalls("R1-batch", pb+"DB.NewBatch*", 1, c14P+"DB.flushWriteRequests", "pkg/db/internal/engine.DB.NewBatch")
	c.ConfineCalls("R1-batch", pb+"Batch.Commit", 1, c14P+"DB.flushWriteRequests", c09EngCommit)
	c.ConfineCalls("R1-batch", pb+"DB.Set", 2, c14P+"pebbleStore.persistMeta", c14P+"DB.*anifest*", c14P+"DB.ensure*", c14P+"DB.write*")
	for _, m := range []string{"Delete", "DeleteRange", "SingleDelete", "Merge", "Apply", "Ingest*"} {
		c.ConfineCalls("R1-batch", pb+"DB."+m, 0)
	}
	c.CallShape("R1-batch", flush, c14P+"writeOp.apply", c14P+"writeOp.apply(*.op, "+pb+"DB.NewBatch(db.db*), *loadScopeWriteState(*)#0, *)")
	c.CallShape("R1-batch", flush, pb+"Batch.Commit", pb+"Batch.Commit("+pb+"DB.NewBatch(db.db*), "+pb+"Sync)")
	for _, op := range []string{"saveOp.apply", "markAppliedOp.apply", "markConfigAppliedOp.apply", "pebbleStore.setMeta"} {
		c.CallShape("R1-batch", c.Fn(c14P+op), pb+"Batch.*", pb+"Batch.*(batch, *")
	}
	for _, op := range []string{"saveOp.apply", "markAppliedOp.apply"} {
		c.CallShape("R1-batch", c.Fn(c14P+op), c14P+"pebbleStore.setMeta", "*(store, batch, state.meta)")
	}
	// at most one commit per flush
	if flush != nil {
		cs := instrsMatching(flush, commit)
		again := false
		for _, cm := range cs {
			if c09ReachesWithout(flush, cm, func(in ssa.Instruction) bool { return commit.Match(in) }, func(ssa.Instruction) bool { return false }) {
				again = true
			}
		}
		construct := c.P.Name(flush) + "#commit-once"
		if len(cs) == 0 || again {
			c.add("order", "R1-batch", construct, Violated, c.P.Pos(flush.Pos()), fmt.Sprintf("%d Commit site(s); a Commit can be followed by another Commit of the group batch", len(cs)))
		} else {
			c.add("order", "R1-batch", construct, Held, c.P.InstrPos(cs[0]), "one Commit per flush")
		}
	}

	c.Guard("R1-commit", flush, StoreTo{"*.stateCache[*]", ""}, commitOK)
	c.Guard("R1-commit", flush, RetNil{}, commitOK)
	// the flag the deferred cleanup reads (a bool captured by the deferred closure) is raised only after
	// the commit succeeded; the flag is identified by that capture, not by the name of the local
	c.Guard("R1-commit", flush, c14DeferFlagRaised(flush), commitOK)
	published := OneOf{commit, StoreTo{"*.stateCache[*]", ""}, RetNil{}}
	c09AfterEdge(c, "R1-commit", flush, "*writeOp.apply(*) != nil", published, nil)
	c09AfterEdge(c, "R1-commit", flush, "*loadScopeWriteState(*)#1 != nil", published, nil)
	c09AfterEdge(c, "R1-commit", flush, commitOK[:len(commitOK)-len(" == nil")]+" != nil", OneOf{StoreTo{"*.stateCache[*]", ""}, RetNil{}}, nil)
	// who writes the committed-state cache at all
	{
		n := 0
		var bad []string
		for _, fn := range c.P.AllFuncs {
			for _, in := range instrsMatching(fn, StoreTo{"*.stateCache[*]", ""}) {
				if _, ok := in.(*ssa.MapUpdate); !ok {
					continue
				}
				n++
				if c.P.Name(fn) != c14P+"DB.flushWriteRequests" {
					bad = append(bad, c.P.Name(fn)+" at "+c.P.InstrPos(in))
				}
			}
		}
		construct := "mapstores:pkg/raftlog.DB.stateCache"
		switch {
		case len(bad) > 0:
			c.add("confine", "R1-commit", construct, Violated, "", "the committed-state cache is written outside the post-commit loop of flushWriteRequests: "+strings.Join(bad, "; "))
		case n == 0:
			c.add("confine", "R1-commit", construct, Undecided, "", "no map update of stateCache found (vacuous)")
		default:
			c.add("confine", "R1-commit", construct, Held, "", fmt.Sprintf("%d map update(s), all in flushWriteRequests", n))
		}
	}

	worker := c.Fn(c14P + "DB.runWriteWorker")
	c14DoneSends(c, "R1-done", worker)
	c.ConfineCalls("R1-done", c14P+"DB.flushWriteRequests", 1, c14P+"DB.runWriteWorker")
	submit := c.Fn(c14P + "DB.submitWrite")
	c.Guard("R1-done", submit, RetNot{0, []string{"<-req.done"}}, "db.closing")
	c.Guard("R1-done", submit, InstrFn{"send db.writeCh <- req", func(in ssa.Instruction) bool {
		s, ok := in.(*ssa.Send)
		return ok && Path(s.Chan) == "db.writeCh" && Path(s.X) == "req"
	}}, "!db.closing")

	c09ErrUsed(c, "R1-errors", "pebble+snapshot-store", c.Fns(c14P+"*"),
		[]string{pb + "Batch.*", pb + "DB.Set", c14P + "writeOp.apply", c14P + "*.apply", c14P + "pebbleStore.setMeta", c14P + "pebbleStore.persistMeta",
			c14P + "DB.submitWrite", c14P + "DB.flushWriteRequests", c14P + "DB.publishSnapshotAndCommit", c14P + "DB.prepareAndWriteSnapshot",
			c14P + "snapshotStore.write", c14P + "snapshotStore.publishFinal", c14P + "renameNoOverwrite", "dyn:" + c14P + "snapshotFsyncDir", "dyn:" + c14P + "snapshotWriteFile",
			"golang.org/x/sys/unix.Renameat2", "os.File.Sync", "os.File.Write"},
		[]string{"*.Close"})

	// ---- R2: snapshot reads are verified; stale snapshots are refused -----------------
	read := c.Fn(c14P + "snapshotStore.read")
	const chunkOK = "*checksumEqual(*snapshotChecksum(*readSnapshotChunkFile(*)#0), manifest.ChunkChecksums[*]) == true"
	c.Guard("R2-read", read, RetNil{},
		"*SnapshotManifest.Validate(manifest, scope) == nil",
		"len(*) == *.TotalSize",
		"*checksumEqual(*snapshotChecksum(*), manifest.WholeChecksum) == true")
	c.Guard("R2-read", read, CallTo{"append(*readSnapshotChunkFile(*)#0)"}, chunkOK, "*readSnapshotChunkFile(*)#1 == nil")
	c.CallShape("R2-read", read, c14P+"readSnapshotChunkFile", "*(*, *expectedChunkSize(manifest, *))")
	c.StoreShape("R2-read", read, "*Snapshot.Data", "phi(nil|append(*readSnapshotChunkFile(*)#0))")
	chunk := c.Fn(c14P + "readSnapshotChunkFile")
	c.Guard("R2-read", chunk, RetNil{},
		"os.File.Stat(*)#1 == nil",
		"io/fs.FileInfo.Size(*) == expectedSize",
		"io.ReadFull(*)#1 == nil",
		"os.File.Read(*)#0 == 0")
	c.GuardTrue("R2-read", c.Fn(c14P+"checksumEqual"), 0, "len(a) == len(b)")
	load := c.Fn(c14P + "pebbleStore.loadSnapshot")
	c.CallShape("R2-read", load, c14P+"snapshotStore.read", "*(*, ctx, s.scope, *loadSnapshotManifestAndRegisterActive(*)#0)")
	c.ConfineCalls("R2-read", c14P+"snapshotStore.read", 1, c14P+"pebbleStore.loadSnapshot")
	view := c.Fn(c14P + "pebbleStore.loadSnapshotMetaViewFrom")
	c.Guard("R2-read", view, RetNil{}, "*validateManifestMetaConsistency(*) == nil", "*loadSnapshotManifestFrom(*)#2 == nil", "*loadMetaFrom(*)#2 == nil")
	cons := c.Fn(c14P + "validateManifestMetaConsistency")
	c.Guard("R2-read", cons, RetNil{}, "!hasManifest || hasMeta", "!hasManifest || meta.SnapshotIndex == manifest.Index", "!hasManifest || meta.SnapshotTerm == *.Term",
		"hasManifest || !hasMeta || meta.SnapshotIndex <= 0")

	apply := c.Fn(c14P + "saveOp.apply")
	const outOfDate = "go.etcd.io/raft/v3.ErrSnapOutOfDate"
	staging := OneOf{CallTo{pb + "Batch.Set(batch, *encodeSnapshotKey(*"}, StoreTo{"state.snapshot", ""}, StoreTo{"state.snapshotManifest", ""}}
	c.Guard("R2-stale", apply, staging,
		"*.Snapshot.Index >= state.snapshot.Metadata.Index",
		"*.Snapshot != nil",
		"*.SnapshotManifest != nil",
		"*encodeSnapshotManifest(*)#1 == nil",
		"*.Snapshot.Index != state.snapshot.Metadata.Index || state.snapshotManifest == nil || *snapshotManifestEquivalent(*) == true || op.allowSnapshotReplace")
	c09AfterEdge(c, "R2-stale", apply, "*.Snapshot.Index < state.snapshot.Metadata.Index", OneOf{CallTo{pb + "Batch.*"}, RetNil{}, CallTo{c14P + "pebbleStore.setMeta"}}, Ret{0, outOfDate})
	plan := c.Fn(c14P + "DB.planSnapshotSave")
	c.Guard("R2-stale", plan, RetNil{}, "!*.hasManifest || snap.Metadata.Index >= *.Index", "*loadSnapshotMetaView(*)#1 == nil")
	c09AfterEdge(c, "R2-stale", plan, "snap.Metadata.Index < *.Index", RetNil{}, Ret{1, outOfDate})
	// ‹kept› = the manifest whose clone is recorded as ExistingManifest (resolved from the stored value):
	// the same-index snapshot was compared field by field with exactly that manifest
	if plan != nil {
		kept := ""
		for _, in := range instrsMatching(plan, StoreTo{"*.ExistingManifest", ""}) {
			if st, ok := in.(*ssa.Store); ok {
				if call, ok := st.Val.(*ssa.Call); ok && calleeName(&call.Call) == c14P+"cloneSnapshotManifestPtr" && len(call.Call.Args) == 1 {
					if p := Path(call.Call.Args[0]); kept == "" || kept == p {
						kept = p
						continue
					}
				}
			}
			kept = "?"
			break
		}
		if kept == "" || kept == "?" {
			c.add("shape", "R2-stale", c.P.Name(plan)+"#existing-manifest-source", Violated, c.P.Pos(plan.Pos()), "plan.ExistingManifest is not (only) assigned cloneSnapshotManifestPtr(<one manifest>)")
		} else {
			c09GuardRef(c, "R2-stale", plan, StoreTo{"*.ExistingManifest", ""}, map[string]string{"kept": kept},
				"snap.Metadata.Term == ‹kept›.Term", "*confStateEqual(snap.Metadata.ConfState, ‹kept›.ConfState) == true", "len(snap.Data) == ‹kept›.TotalSize",
				"bytes.Equal(*snapshotChecksum(snap.Data), ‹kept›.WholeChecksum) == true")
		}
	}
	save := c.Fn(c14P + "pebbleStore.Save")
	c.Guard("R2-stale", save, OneOf{CallTo{c14P + "DB.submitWrite"}, CallTo{c14P + "DB.publishSnapshotAndCommit"}, CallTo{c14P + "DB.prepareAndWriteSnapshot"}},
		"*.Snapshot == nil || *planSnapshotSave(*)#1 == nil")

	// ---- R3: snapshot publish order -------------------------------------------------
	wsf := c.Fn(c14P + "writeSyncedFile")
	c.Guard("R3-publish", wsf, Ret{0, "os.File.Close(*)"},
		"os.File.Sync(*) == nil", "*os.File.Write(*)#1* == nil", "os.OpenFile(*)#1 == nil", "after: os.File.Sync")
	c.Guard("R3-publish", wsf, CallTo{"os.File.Sync"}, "after: os.File.Write")
	c.Guard("R3-publish", wsf, Ret{0, "os.File.Close(*)"}, "phi(os.File.Write(*)#1*|io.ErrShortWrite) == nil || os.File.Write(*)#0 == len(data)")
	fsd := c.Fn(c14P + "fsyncDir")
	c.Guard("R3-publish", fsd, Ret{0, "os.File.Close(*)"}, "os.File.Sync(*) == nil", "os.Open(*)#1 == nil")
	c14GlobalStores(c, "R3-publish", c14P+"snapshotFsyncDir", c14P+"init")
	c14GlobalStores(c, "R3-publish", c14P+"snapshotWriteFile", c14P+"init", c14P+"TestingSetSnapshotWriteFileHook")
	c.ConfineCalls("R3-publish", c14P+"TestingSetSnapshotWriteFileHook", 0)
	for _, g := range []struct{ global, want string }{{"snapshotFsyncDir", "fsyncDir"}, {"snapshotWriteFile", "writeSyncedFile"}} {
		if init := c.Fn(c14P + "init"); init != nil {
			c.StoreShape("R3-publish", init, c14P+g.global, c14P+g.want)
		}
	}
	w := c.Fn(c14P + "snapshotStore.write")
	const fsyncTmp = "dyn:" + c14P + "snapshotFsyncDir(staged.tmpDir) == nil"
	c.Guard("R3-publish", w, CallTo{c14P + "SnapshotManifest.Validate"},
		fsyncTmp,
		"dyn:"+c14P+"snapshotFsyncDir(path/filepath.Dir(staged.tmpDir)) == nil",
		"os.Mkdir(staged.tmpDir, *) == nil")
	c09AfterEdge(c, "R3-publish", w, "dyn:"+c14P+"snapshotWriteFile(*) != nil", OneOf{CallTo{c14P + "SnapshotManifest.Validate"}, RetNil{}}, nil)
	c.CallShape("R3-publish", w, "dyn:"+c14P+"snapshotWriteFile", "dyn:"+c14P+"snapshotWriteFile(path/filepath.Join(*), data[*])")
	pf := c.Fn(c14P + "snapshotStore.publishFinal")
	c.Guard("R3-publish", pf, AnyRet{}, "staged == nil || *renameNoOverwrite(staged.tmpDir, staged.finalDir) != nil || after: dyn:"+c14P+"snapshotFsyncDir")
	c.Guard("R3-publish", pf, CallTo{"dyn:" + c14P + "snapshotFsyncDir"}, "*renameNoOverwrite(staged.tmpDir, staged.finalDir) == nil")
	c.Guard("R3-publish", pf, Ret{0, "dyn:" + c14P + "snapshotFsyncDir(path/filepath.Dir(staged.finalDir))"}, "*renameNoOverwrite(*) == nil")
	rn := c.Fn(c14P + "renameNoOverwrite")
	noReplace := "1" // unix.RENAME_NOREPLACE
	c.CallShape("R3-publish", rn, "golang.org/x/sys/unix.Renameat2", "*(*, oldPath, *, newPath, "+noReplace+")")
	c.Guard("R3-publish", rn, AnyRet{}, "after: golang.org/x/sys/unix.Renameat2")
	pc := c.Fn(c14P + "DB.publishSnapshotAndCommit")
	c.Guard("R3-publish", pc, CallTo{c14P + "DB.submitWrite"}, "*snapshotStore.publishFinal(*, staged) == nil")
	c.CallShape("R3-publish", pc, c14P+"DB.submitWrite", "*(db, req)")
	prep := c.Fn(c14P + "DB.prepareAndWriteSnapshot")
	c.Guard("R3-publish", prep, RetNil{}, "*snapshotStore.write(*) == nil", "*snapshotStore.prepare(*)#1 == nil")
	for _, f := range []string{"pebbleStore.Save", "pebbleStore.ReplaceSnapshot"} {
		c.Guard("R3-publish", c.Fn(c14P+f), CallTo{c14P + "DB.publishSnapshotAndCommit"}, "*prepareAndWriteSnapshot(*)#1 == nil || phi(*prepareAndWriteSnapshot(*)#0) != nil")
	}
	c.ConfineCalls("R3-publish", c14P+"snapshotStore.publishFinal", 1, c14P+"DB.publishSnapshotAndCommit", c14P+"snapshotStore.stage")

	c.Min("R1-sync", 3)
	c.Min("R1-batch", 15)
	c.Min("R1-commit", 7)
	c.Min("R2-read", 15)
	c.Min("R2-stale", 10)
	c.Min("R3-publish", 25)
}
