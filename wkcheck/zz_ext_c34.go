package main

import (
	"fmt"
	"go/constant"
	"go/token"
	"go/types"
	"sort"
	"strings"

	"golang.org/x/tools/go/ssa"
)

// Extension rules for C34 found by seeded change C34-c.
//
// Clause: "every hydration result whose outcome makes the usecase compute unread / visibility from it
// (HydrationOK, HydrationNoVisibleMessage) carries ALL sequence floors of the channel head it was built from".
// conversationFromMembership and SetUnread take max(..., head.RetentionThroughSeq, ..., head.CurrentUserLastSendSeq)
// (R2 of the base table); a producer that leaves one of these fields at its zero value for some outcome turns
// that floor off and the unread count becomes LastCommittedSeq - (a too small read point). Seed C34-c copied
// RetentionThroughSeq / CurrentUserLastSendSeq only on the HydrationOK branch of the cluster adapter.
//
//	X1-head-floors   (checked in every function of the loaded packages that stores such an outcome)
//	  (a) for every store  R.Outcome = HydrationOK | HydrationNoVisibleMessage  and every field F of HydrationResult
//	      that is not exempt below: every path through the outcome store, within the same loop iteration, also
//	      executes  R.F = H.F'  for the SAME result element R, where the stored value is a plain copy of the
//	      like-named field F' of a head H and, when R is results[i], H is rooted at an element [i] of the head batch
//	      with the very same index value i (aligned);
//	  (b) every store to such a field F of a HydrationResult in those functions has that shape (no later
//	      overwrite with 0, no cross-wired source field, no other index);
//	  (c) every HydrationOutcome constant is classified (reads the head / does not), so a new outcome cannot
//	      silently escape (a).
//
// The required fields are derived from the struct: a floor field added to HydrationResult later is required
// automatically. Locals are looked through by single-assignment, never by name.
func init() {
	const f = "internal/infra/cluster/conversation.go"
	const copies = "\t\tresults[index].RetentionThroughSeq = head.RetentionThroughSeq\n\t\tresults[index].CurrentUserLastSendSeq = head.CurrentUserLastSendSeq\n"
	const branch = "\t\tif head.Found {\n\t\t\tmessage := lastMessageFromChannel(head.Message)\n\t\t\tresults[index].LastMessage = &message\n\t\t\tresults[index].Outcome = conversationusecase.HydrationOK\n\t\t} else {\n\t\t\tresults[index].Outcome = conversationusecase.HydrationNoVisibleMessage\n\t\t}\n"
	extend("C34", []string{"./internal/infra/cluster"}, xc34HeadFloors,
		// the seeded change: the floors are copied only when a message body was found
		Mutant{Name: "x-floors-only-when-body-found", File: f,
			Old:    copies + "\t\tif head.Found {\n",
			New:    "\t\tif head.Found {\n\t" + strings.ReplaceAll(strings.TrimSuffix(copies, "\n"), "\n", "\n\t") + "\n",
			Expect: "C34/X1-head-floors/*"},
		// one floor is never handed over at all
		Mutant{Name: "x-own-send-floor-not-copied", File: f,
			Old: "\t\tresults[index].CurrentUserLastSendSeq = head.CurrentUserLastSendSeq\n", New: "", Expect: "C34/X1-head-floors/*"},
		// the retention floor is dropped again for heads without a body
		Mutant{Name: "x-no-body-resets-retention", File: f,
			Old:    "\t\t\tresults[index].Outcome = conversationusecase.HydrationNoVisibleMessage\n",
			New:    "\t\t\tresults[index].Outcome = conversationusecase.HydrationNoVisibleMessage\n\t\t\tresults[index].RetentionThroughSeq = 0\n",
			Expect: "C34/X1-head-floors/*"},
		// copy/paste slip: the floor is fed from another field of the head
		Mutant{Name: "x-own-send-floor-cross-wired", File: f,
			Old:    "\t\tresults[index].CurrentUserLastSendSeq = head.CurrentUserLastSendSeq\n",
			New:    "\t\tresults[index].CurrentUserLastSendSeq = head.RetentionThroughSeq\n",
			Expect: "C34/X1-head-floors/*"},
		// the floors come from another membership's head
		Mutant{Name: "x-floors-from-first-head", File: f,
			Old: "\t\thead := item.Head\n", New: "\t\thead := heads[0].Head\n", Expect: "C34/X1-head-floors/*"},
		// behaviour-preserving: locals renamed / chained, element reached through a pointer, value through a temporary
		Mutant{Name: "x-floors-refactor-locals-and-pointer", File: f,
			Old:    "\t\thead := item.Head\n\t\tresults[index].LastCommittedSeq = head.LastCommittedSeq\n" + copies,
			New:    "\t\tsnapshot := item.Head\n\t\thead := snapshot\n\t\tout := &results[index]\n\t\tout.LastCommittedSeq = snapshot.LastCommittedSeq\n\t\tretained := snapshot.RetentionThroughSeq\n\t\tout.RetentionThroughSeq = retained\n\t\tout.CurrentUserLastSendSeq = head.CurrentUserLastSendSeq\n",
			Expect: "!silent"},
		// behaviour-preserving: the floors are copied after the outcome branch instead of before it
		Mutant{Name: "x-floors-refactor-copied-after-branch", File: f,
			Old: copies + branch, New: branch + copies, Expect: "!silent"},
	)
}

// xc34Exempt: fields of HydrationResult that are not sequence floors of the head (reason each).
var xc34Exempt = map[string]string{
	"Key":         "identity of the membership row, set from the request, not from the head",
	"Outcome":     "the discriminator itself",
	"LastMessage": "optional body: only HydrationOK has one; its absence is the NoVisibleMessage shape and can only hide a message, never raise unread",
}

// xc34HeadField: name of the head-side field a result field is copied from (default: the same name).
var xc34HeadField = map[string]string{}

// xc34OutcomeClass: does the usecase read the floors of a result with this outcome?
var xc34OutcomeClass = map[string]struct {
	reads bool
	why   string
}{
	"HydrationOK":               {true, "List/Retry/membershipMutationHead hand the result to conversationFromMembership / SetUnread"},
	"HydrationNoVisibleMessage": {true, "same switch arm as HydrationOK in List, Retry and membershipMutationHead"},
	"HydrationDelete":           {false, "the row is dropped / ErrNotFound; no field besides Key is looked at"},
	"HydrationRetryable":        {false, "the row is queued for retry / ErrRouteNotReady; no field besides Key is looked at"},
}

func xc34HeadFloors(c *Ctx) {
	const rule = "X1-head-floors"
	const ucPkg = "internal/usecase/conversation"
	resT := c.lookupType(c34Pkg + "HydrationResult")
	if resT == nil {
		c.add("anchor", "anchor", c34Pkg+"HydrationResult", Undecided, "", "anchored type not found")
		return
	}
	st, ok := resT.Underlying().(*types.Struct)
	if !ok {
		c.add("anchor", "anchor", c34Pkg+"HydrationResult", Undecided, "", "not a struct any more")
		return
	}
	// (c) classification of the outcome constants
	consts := c.constsOfType(ucPkg, "HydrationOutcome", "")
	readsHead := map[string]string{} // exact constant value -> name
	var unclassified []string
	for name, v := range consts {
		cl, ok := xc34OutcomeClass[name]
		if !ok {
			unclassified = append(unclassified, name)
			readsHead[v.ExactString()] = name // conservatively: treat as reading the head
			continue
		}
		if cl.reads {
			readsHead[v.ExactString()] = name
		}
	}
	sort.Strings(unclassified)
	switch {
	case len(consts) == 0:
		c.add("exhaust", rule, "outcomes-classified", Undecided, "", "no HydrationOutcome constants resolved")
	case len(unclassified) > 0:
		c.add("exhaust", rule, "outcomes-classified", Undecided, "", fmt.Sprintf("HydrationOutcome constant(s) %v are not classified as reading / not reading the head floors (update xc34OutcomeClass after reading the usecase switch)", unclassified))
	default:
		c.add("exhaust", rule, "outcomes-classified", Held, "", fmt.Sprintf("%d outcome constants classified", len(consts)))
	}
	var required []string
	for i := 0; i < st.NumFields(); i++ {
		if _, ok := xc34Exempt[st.Field(i).Name()]; !ok {
			required = append(required, st.Field(i).Name())
		}
	}
	isReq := map[string]bool{}
	for _, f := range required {
		isReq[f] = true
	}

	sites := 0
	adapterSites := 0
	for _, fn := range c.P.AllFuncs {
		name := c.P.Name(fn)
		type site struct {
			st    *ssa.Store
			base  ssa.Value
			kinds []string
		}
		var found []site
		for _, b := range fn.Blocks {
			for _, in := range b.Instrs {
				s, ok := in.(*ssa.Store)
				if !ok {
					continue
				}
				base, fld, ok := xc34ResultField(s.Addr, resT)
				if !ok || fld != "Outcome" {
					continue
				}
				if kinds := xc34OutcomeKinds(s.Val, readsHead); len(kinds) > 0 {
					found = append(found, site{s, base, kinds})
				}
			}
		}
		if len(found) == 0 {
			continue
		}
		c.FuncsAnalysed[name] = true
		// (b) every store to a required field copies the like-named head field, aligned
		byField := map[string][]string{}
		badField := map[string][]string{}
		badPos := map[string]string{}
		for _, b := range fn.Blocks {
			for _, in := range b.Instrs {
				s, ok := in.(*ssa.Store)
				if !ok {
					continue
				}
				base, fld, ok := xc34ResultField(s.Addr, resT)
				if !ok || !isReq[fld] {
					continue
				}
				if why := xc34CopyOfHead(s.Val, fld, xc34ElemIndex(base), resT); why != "" {
					badField[fld] = append(badField[fld], c.P.InstrPos(s)+": "+why)
					if badPos[fld] == "" {
						badPos[fld] = c.P.InstrPos(s)
					}
				} else {
					byField[fld] = append(byField[fld], c.P.InstrPos(s))
				}
			}
		}
		for _, fld := range required {
			construct := fmt.Sprintf("%s#stores-of:%s", name, fld)
			switch {
			case len(badField[fld]) > 0:
				c.add("shape", rule, construct, Violated, badPos[fld],
					fmt.Sprintf("HydrationResult.%s is stored with something other than a plain copy of the aligned head's %s: %s", fld, xc34HeadName(fld), strings.Join(badField[fld], "; ")))
			case len(byField[fld]) == 0:
				c.add("shape", rule, construct, Violated, c.P.Pos(fn.Pos()), fmt.Sprintf("%s reports an outcome the usecase computes unread from but never stores HydrationResult.%s: that floor is 0 for every result", name, fld))
			default:
				c.add("shape", rule, construct, Held, byField[fld][0], fmt.Sprintf("%d store(s), each a copy of the aligned head's %s", len(byField[fld]), xc34HeadName(fld)))
			}
		}
		// (a) every outcome store is accompanied by a copy of every floor, for the same element, in the same iteration
		for _, s := range found {
			sites++
			if strings.HasPrefix(name, "internal/infra/cluster.") {
				adapterSites++
			}
			idx := xc34ElemIndex(s.base)
			for _, fld := range required {
				fld := fld
				pass := func(in ssa.Instruction) bool {
					t, ok := in.(*ssa.Store)
					if !ok {
						return false
					}
					base, f2, ok := xc34ResultField(t.Addr, resT)
					return ok && f2 == fld && xc34SameElem(base, s.base) && xc34CopyOfHead(t.Val, fld, idx, resT) == ""
				}
				stop := func(in ssa.Instruction) bool {
					v, ok := in.(ssa.Value)
					return ok && idx != nil && v == idx
				}
				before, after := xc34Accompanied(s.st, pass, stop)
				construct := fmt.Sprintf("%s#Outcome=%s→%s", name, strings.Join(s.kinds, "|"), fld)
				if before || after {
					how := "after"
					if before {
						how = "before"
					}
					c.add("order", rule, construct, Held, c.P.InstrPos(s.st), fmt.Sprintf("every path through the outcome store copies the aligned head's %s into the same result %s it", xc34HeadName(fld), how))
				} else {
					c.add("order", rule, construct, Violated, c.P.InstrPos(s.st), fmt.Sprintf("%s reports %s on a path that does not copy the head's %s into the same result: the usecase takes the maximum over this floor, so with 0 here unread = LastCommittedSeq - (too small read point) over-counts", name, strings.Join(s.kinds, "|"), xc34HeadName(fld)))
				}
			}
		}
	}
	if adapterSites < 2 {
		c.add("vacuity", rule, "outcome-stores@internal/infra/cluster", Undecided, "", fmt.Sprintf("%d store(s) of a head-reading outcome found in the cluster adapter (%d overall), hand-confirmed minimum 2", adapterSites, sites))
	}
	c.Min(rule, 1+2*len(required)+len(required))
}

func xc34HeadName(f string) string {
	if n, ok := xc34HeadField[f]; ok {
		return n
	}
	return f
}

// xc34ResultField: addr is &R.F for a HydrationResult R; returns the element address R and the field name.
func xc34ResultField(addr ssa.Value, resT types.Type) (ssa.Value, string, bool) {
	fa, ok := addr.(*ssa.FieldAddr)
	if !ok || !sameNamed(fa.X.Type(), resT) {
		return nil, "", false
	}
	return fa.X, fieldName(fa.X.Type(), fa.Field), true
}

// xc34OutcomeKinds: names of the head-reading outcomes the stored value can be (a non-constant value can be any).
func xc34OutcomeKinds(v ssa.Value, readsHead map[string]string) []string {
	set := map[string]bool{}
	seen := map[ssa.Value]bool{}
	var walk func(v ssa.Value)
	walk = func(v ssa.Value) {
		v = stripConv(v)
		if seen[v] {
			return
		}
		seen[v] = true
		switch x := v.(type) {
		case *ssa.Const:
			if x.Value != nil && x.Value.Kind() == constant.Int {
				if n, ok := readsHead[x.Value.ExactString()]; ok {
					set[n] = true
				}
			}
		case *ssa.Phi:
			for _, e := range x.Edges {
				walk(e)
			}
		default:
			set["(computed outcome)"] = true
		}
	}
	walk(v)
	var out []string
	for n := range set {
		out = append(out, n)
	}
	sort.Strings(out)
	return out
}

// xc34ElemIndex: the index value i when the result element is results[i] (directly, or a local that is
// stored into results[i] as a whole); nil when the element is not a slice element in this function.
func xc34ElemIndex(base ssa.Value) ssa.Value {
	switch x := base.(type) {
	case *ssa.IndexAddr:
		return stripConv(x.Index)
	case *ssa.Alloc:
		if x.Referrers() == nil {
			return nil
		}
		for _, r := range *x.Referrers() {
			ld, ok := r.(*ssa.UnOp)
			if !ok || ld.Op != token.MUL || ld.Referrers() == nil {
				continue
			}
			for _, rr := range *ld.Referrers() {
				if s, ok := rr.(*ssa.Store); ok && s.Val == ssa.Value(ld) {
					if ia, ok := s.Addr.(*ssa.IndexAddr); ok {
						return stripConv(ia.Index)
					}
				}
			}
		}
	}
	return nil
}

func xc34SameElem(a, b ssa.Value) bool {
	if a == b {
		return true
	}
	ia, ok1 := a.(*ssa.IndexAddr)
	ib, ok2 := b.(*ssa.IndexAddr)
	if !ok1 || !ok2 || stripConv(ia.Index) != stripConv(ib.Index) {
		return false
	}
	return ia.X == ib.X || Path(ia.X) == Path(ib.X)
}

// xc34PureLocal: the local cell a is assigned as a whole exactly once, none of its fields is stored to and its
// address does not leave the function; returns that one stored value.
func xc34PureLocal(a *ssa.Alloc) (ssa.Value, bool) {
	var whole []ssa.Value
	pure := true
	var visit func(addr ssa.Value, top bool)
	visit = func(addr ssa.Value, top bool) {
		refs := addr.Referrers()
		if refs == nil {
			return
		}
		for _, r := range *refs {
			switch x := r.(type) {
			case *ssa.Store:
				if x.Addr == addr {
					if top {
						whole = append(whole, x.Val)
					} else {
						pure = false
					}
				} else {
					pure = false // the address itself is stored somewhere
				}
			case *ssa.FieldAddr:
				visit(x, false)
			case *ssa.IndexAddr:
				visit(x, false)
			case *ssa.UnOp, *ssa.DebugRef:
			default:
				pure = false // call argument, phi, closure capture, …
			}
		}
	}
	visit(a, true)
	if !pure || len(whole) != 1 {
		return nil, false
	}
	return whole[0], true
}

// xc34Resolve follows a value back through field selections and single-assignment locals to where it is read
// from: the root it is selected from and the chain of field names applied to it.
func xc34Resolve(v ssa.Value, depth int) (root ssa.Value, fields []string, ok bool) {
	if depth > 12 {
		return nil, nil, false
	}
	v = stripConv(v)
	switch x := v.(type) {
	case *ssa.Field:
		r, fs, ok := xc34Resolve(x.X, depth+1)
		return r, append(fs, fieldName(x.X.Type(), x.Field)), ok
	case *ssa.UnOp:
		if x.Op != token.MUL {
			return v, nil, true
		}
		return xc34ResolveAddr(x.X, depth+1)
	}
	return v, nil, true
}

func xc34ResolveAddr(addr ssa.Value, depth int) (ssa.Value, []string, bool) {
	if depth > 12 {
		return nil, nil, false
	}
	switch a := addr.(type) {
	case *ssa.FieldAddr:
		r, fs, ok := xc34ResolveAddr(a.X, depth+1)
		return r, append(fs, fieldName(a.X.Type(), a.Field)), ok
	case *ssa.Alloc:
		if p := spilledParam(a); p != nil {
			return p, nil, true
		}
		src, ok := xc34PureLocal(a)
		if !ok {
			return nil, nil, false
		}
		return xc34Resolve(src, depth+1)
	case *ssa.IndexAddr:
		return a, nil, true
	case *ssa.UnOp:
		if a.Op == token.MUL { // a pointer held in a local
			if al, ok := a.X.(*ssa.Alloc); ok {
				src, ok := xc34PureLocal(al)
				if !ok {
					return nil, nil, false
				}
				return xc34ResolveAddr(src, depth+1)
			}
		}
	}
	return addr, nil, true
}

// xc34CopyOfHead: "" when v is a plain copy of field F' (the head-side name of result field fld) read from
// something that is not itself a HydrationResult and, when the result element is results[idx], rooted at an
// element [idx] of another slice with the same index value; otherwise the reason it is not.
func xc34CopyOfHead(v ssa.Value, fld string, idx ssa.Value, resT types.Type) string {
	root, fields, ok := xc34Resolve(v, 0)
	if !ok {
		return "the stored value goes through a local that is reassigned, partially overwritten or whose address escapes (" + Path(v) + ")"
	}
	if len(fields) == 0 {
		return "the stored value is not a field read (" + Path(v) + ")"
	}
	if got, want := fields[len(fields)-1], xc34HeadName(fld); got != want {
		return fmt.Sprintf("the stored value is read from field %s, not %s", got, want)
	}
	switch r := root.(type) {
	case *ssa.IndexAddr:
		if sameNamed(r.Type(), resT) {
			return "the stored value is read back from a HydrationResult, not from a channel head"
		}
		if idx != nil && stripConv(r.Index) != idx {
			return fmt.Sprintf("the head is element [%s] of its batch but the result is element [%s]: not aligned", Path(r.Index), Path(idx))
		}
	case *ssa.Parameter:
		// a helper that maps one head to one result: alignment is the caller's business, not visible here
	default:
		if idx != nil {
			return "the head the value is read from (" + Path(root) + ") is not the batch element with the result's index"
		}
	}
	return ""
}

// xc34Accompanied: every path through `site` executes an instruction satisfying pass, either before it or after
// it, without leaving the current loop iteration (stop marks the definition of the element index), the function
// (entry / return) or coming round to the site again.
func xc34Accompanied(site ssa.Instruction, pass, stop func(ssa.Instruction) bool) (before, after bool) {
	sb := site.Block()
	si := indexIn(sb, site)
	{
		seen := map[*ssa.BasicBlock]bool{}
		var walk func(b *ssa.BasicBlock, from int) bool // true = escapes
		walk = func(b *ssa.BasicBlock, from int) bool {
			for i := from; i < len(b.Instrs); i++ {
				in := b.Instrs[i]
				if pass(in) {
					return false
				}
				if in == site || stop(in) {
					return true
				}
				if _, ok := in.(*ssa.Return); ok {
					return true
				}
			}
			for _, s := range b.Succs {
				if seen[s] {
					continue
				}
				seen[s] = true
				if walk(s, 0) {
					return true
				}
			}
			return false
		}
		after = !walk(sb, si+1)
	}
	{
		seen := map[*ssa.BasicBlock]bool{}
		var walk func(b *ssa.BasicBlock, from int) bool // true = escapes
		walk = func(b *ssa.BasicBlock, from int) bool {
			for i := from; i >= 0; i-- {
				in := b.Instrs[i]
				if pass(in) {
					return false
				}
				if in == site || stop(in) {
					return true
				}
			}
			if b.Index == 0 {
				return true
			}
			for _, p := range b.Preds {
				if seen[p] {
					continue
				}
				seen[p] = true
				if walk(p, len(p.Instrs)-1) {
					return true
				}
			}
			return false
		}
		before = !walk(sb, si-1)
	}
	return
}
