package main

import (
	"fmt"
	"sort"
	"strings"

	"golang.org/x/tools/go/ssa"
)

func stripConv(v ssa.Value) ssa.Value {
	for {
		switch x := v.(type) {
		case *ssa.Convert:
			v = x.X
		case *ssa.ChangeType:
			v = x.X
		default:
			return v
		}
	}
}

type atomicSite struct {
	fn     *ssa.Function
	call   ssa.CallInstruction
	method string
}

// atomicSites lists every sync/atomic method call whose receiver is the given struct field.
func (c *Ctx) atomicSites(field string) []atomicSite {
	fv := c.Field(field)
	if fv == nil {
		return nil
	}
	var out []atomicSite
	for _, fn := range c.P.AllFuncs {
		for _, b := range fn.Blocks {
			for _, in := range b.Instrs {
				ci, ok := in.(ssa.CallInstruction)
				if !ok {
					continue
				}
				cc := ci.Common()
				callee, ok := cc.Value.(*ssa.Function)
				if !ok || cc.IsInvoke() || len(cc.Args) == 0 {
					continue
				}
				fa, ok := cc.Args[0].(*ssa.FieldAddr)
				if !ok || fieldVar(fa.X.Type(), fa.Field) != fv {
					continue
				}
				out = append(out, atomicSite{fn, ci, callee.Name()})
			}
		}
	}
	return out
}

// AtomicOps: the atomic field is only ever touched through the listed methods
// (e.g. Load and CompareAndSwap; any Store/Add/Swap is a violation), module-wide.
func (c *Ctx) AtomicOps(rule, field string, allowed []string, exceptFuncs map[string]string) []atomicSite {
	sites := c.atomicSites(field)
	construct := "atomic-ops:" + field
	if len(sites) == 0 {
		c.add("mono", rule, construct, Undecided, "", "no atomic operation on the field found (vacuous)")
		return nil
	}
	counts := map[string]int{}
	var bad []string
	var badPos string
	for _, s := range sites {
		counts[s.method]++
		ok := false
		for _, a := range allowed {
			if a == s.method {
				ok = true
			}
		}
		if _, ex := matchReset(exceptFuncs, c.P.Name(s.fn)); ex {
			ok = true
		}
		if !ok {
			bad = append(bad, fmt.Sprintf("%s in %s at %s", s.method, c.P.Name(s.fn), c.P.InstrPos(s.call)))
			if badPos == "" {
				badPos = c.P.InstrPos(s.call)
			}
		}
	}
	c.CallSites += len(sites)
	if len(bad) > 0 {
		c.add("mono", rule, construct, Violated, badPos, fmt.Sprintf("atomic field %s is mutated outside the allowed operations %v: %s", field, allowed, strings.Join(bad, "; ")))
		return sites
	}
	c.add("mono", rule, construct, Held, "", fmt.Sprintf("%d atomic op(s) on %s, only %v: %s", len(sites), field, allowed, countsString(counts)))
	return sites
}

// CASAdvances: every CompareAndSwap(old,new) on the field has old = the value
// of a Load of the same field (SSA value identity) and is dominated by the
// pass edge of new > old on those same two SSA values.
func (c *Ctx) CASAdvances(rule, field string, sites []atomicSite) {
	n := 0
	for _, s := range sites {
		if s.method != "CompareAndSwap" {
			continue
		}
		n++
		cc := s.call.Common()
		name := c.P.Name(s.fn)
		construct := fmt.Sprintf("cas-advances:%s@%s#%s", field, name, Path(cc.Args[2]))
		pos := c.P.InstrPos(s.call)
		old, nw := stripConv(cc.Args[1]), stripConv(cc.Args[2])
		// the expected value is a Load of the same atomic — or a loop variable that is only ever assigned such Loads
		// (`for cur = x.Load(); new > cur; cur = x.Load() { if x.CompareAndSwap(cur, new) … }`)
		var isLoadOfSame func(v ssa.Value, d int) bool
		isLoadOfSame = func(v ssa.Value, d int) bool {
			switch y := stripConv(v).(type) {
			case *ssa.Call:
				return y.Call.Value != nil && calleeName(&y.Call) == "sync/atomic.Uint64.Load" && Path(y.Call.Args[0]) == Path(cc.Args[0])
			case *ssa.Phi:
				if d > 2 || len(y.Edges) == 0 {
					return false
				}
				for _, e := range y.Edges {
					if e != ssa.Value(y) && !isLoadOfSame(e, d+1) {
						return false
					}
				}
				return true
			}
			return false
		}
		if !isLoadOfSame(old, 0) {
			c.add("mono", rule, construct, Violated, pos, fmt.Sprintf("CAS expected-value %s is not the result of a Load of the same atomic (lost-update window)", Path(old)))
			continue
		}
		removed := map[edge]bool{}
		for _, b := range s.fn.Blocks {
			if len(b.Instrs) == 0 {
				continue
			}
			iff, ok := b.Instrs[len(b.Instrs)-1].(*ssa.If)
			if !ok {
				continue
			}
			bin, ok := iff.Cond.(*ssa.BinOp)
			if !ok {
				continue
			}
			x, y := stripConv(bin.X), stripConv(bin.Y)
			op := bin.Op.String()
			if x == old && y == nw {
				x, y = y, x
				op = mirrorOp[op]
			}
			if x != nw || y != old {
				continue
			}
			// now cond is: new op old
			if op == ">" {
				removed[edge{b, 0}] = true
			}
			if op == "<=" {
				removed[edge{b, 1}] = true
			}
		}
		c.EdgesRemoved += len(removed)
		limit := reachUnguarded(s.fn, removed, nil)
		b := s.call.Block()
		if lim, ok := limit[b]; ok && indexIn(b, s.call) < lim {
			c.add("mono", rule, construct, Violated, pos, fmt.Sprintf("CompareAndSwap(%s → %s) in %s is reachable without the strict comparison new > old on the same loaded value", Path(old), Path(nw), name))
			continue
		}
		c.add("mono", rule, construct, Held, pos, fmt.Sprintf("CAS from the loaded floor, dominated by new > loaded (%d guard edge(s))", len(removed)))
	}
	if n == 0 {
		c.add("mono", rule, "cas-advances:"+field, Undecided, "", "no CompareAndSwap on the field (vacuous)")
	}
}

// sortedKeys is a tiny helper for deterministic output.
func sortedKeys[M ~map[string]V, V any](m M) []string {
	var ks []string
	for k := range m {
		ks = append(ks, k)
	}
	sort.Strings(ks)
	return ks
}
