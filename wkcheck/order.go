package main

import (
	"fmt"
	"strings"

	"golang.org/x/tools/go/ssa"
)

// instrsMatching lists instructions of fn (excluding the recover block) matching eff.
func instrsMatching(fn *ssa.Function, eff Effect) []ssa.Instruction {
	var out []ssa.Instruction
	for _, b := range fn.Blocks {
		if b == fn.Recover {
			continue
		}
		for _, in := range b.Instrs {
			if eff.Match(in) {
				out = append(out, in)
			}
		}
	}
	return out
}

// CallShape: every call in fn whose callee matches calleeGlob renders to one of shapes.
func (c *Ctx) CallShape(rule string, fn *ssa.Function, calleeGlob string, shapes ...string) {
	if fn == nil {
		return
	}
	fname := c.P.Name(fn)
	n := 0
	var bad []string
	var badPos string
	for _, b := range fn.Blocks {
		for _, in := range b.Instrs {
			ci, ok := in.(ssa.CallInstruction)
			if !ok || !glob(calleeGlob, calleeName(ci.Common())) {
				continue
			}
			n++
			s := renderCall(ci.Common(), 0, nil)
			if !globAny(shapes, s) {
				bad = append(bad, s+" at "+c.P.InstrPos(in))
				if badPos == "" {
					badPos = c.P.InstrPos(in)
				}
			}
		}
	}
	c.CallSites += n
	construct := fname + "#callshape:" + calleeGlob
	switch {
	case n == 0:
		c.add("shape", rule, construct, Undecided, c.P.Pos(fn.Pos()), "no call to "+calleeGlob+" in "+fname+" (vacuous)")
	case len(bad) > 0:
		c.add("shape", rule, construct, Violated, badPos, fmt.Sprintf("call does not have the required argument shape %v: %s", shapes, strings.Join(bad, "; ")))
	default:
		c.add("shape", rule, construct, Held, c.P.Pos(fn.Pos()), fmt.Sprintf("%d call(s) to %s, all of shape %v", n, calleeGlob, shapes))
	}
}

// StoreShape: every store in fn whose address matches addrGlob stores a value matching one of vals.
func (c *Ctx) StoreShape(rule string, fn *ssa.Function, addrGlob string, vals ...string) {
	if fn == nil {
		return
	}
	fname := c.P.Name(fn)
	n := 0
	var bad []string
	var badPos string
	for _, in := range instrsMatching(fn, StoreTo{Addr: addrGlob}) {
		n++
		var v string
		switch st := in.(type) {
		case *ssa.Store:
			v = Path(st.Val)
		case *ssa.MapUpdate:
			v = Path(st.Value)
		}
		if !globAny(vals, v) {
			bad = append(bad, v+" at "+c.P.InstrPos(in))
			if badPos == "" {
				badPos = c.P.InstrPos(in)
			}
		}
	}
	construct := fname + "#storeshape:" + addrGlob
	switch {
	case n == 0:
		c.add("shape", rule, construct, Undecided, c.P.Pos(fn.Pos()), "no store to "+addrGlob+" in "+fname+" (vacuous)")
	case len(bad) > 0:
		c.add("shape", rule, construct, Violated, badPos, fmt.Sprintf("store to %s has a value outside %v: %s", addrGlob, vals, strings.Join(bad, "; ")))
	default:
		c.add("shape", rule, construct, Held, c.P.Pos(fn.Pos()), fmt.Sprintf("%d store(s) to %s, all values of shape %v", n, addrGlob, vals))
	}
}

// FollowedBy: after every instruction matching m, every path to a normal
// return passes an instruction matching p (post-domination on the SSA CFG;
// panics are not exits). Deferred calls matching p registered before m count.
func (c *Ctx) FollowedBy(rule string, fn *ssa.Function, m, p Effect) {
	if fn == nil {
		return
	}
	fname := c.P.Name(fn)
	ms := instrsMatching(fn, m)
	construct := fname + "#" + m.String() + "→" + p.String()
	if len(ms) == 0 {
		c.add("order", rule, construct, Undecided, c.P.Pos(fn.Pos()), "no instruction matches "+m.String()+" (vacuous)")
		return
	}
	var bad []string
	for _, start := range ms {
		if c.escapesWithout(fn, start, p) {
			bad = append(bad, c.P.InstrPos(start))
		}
	}
	if len(bad) > 0 {
		c.add("order", rule, construct, Violated, bad[0], fmt.Sprintf("in %s a path from %q reaches a return without passing %q (from %s)", fname, m.String(), p.String(), strings.Join(bad, ", ")))
		return
	}
	c.add("order", rule, construct, Held, c.P.InstrPos(ms[0]), fmt.Sprintf("%d site(s) of %q, each post-dominated by %q on all return paths", len(ms), m.String(), p.String()))
}

// escapesWithout: is a Return reachable from just after `start` without executing an instruction matching p?
func (c *Ctx) escapesWithout(fn *ssa.Function, start ssa.Instruction, p Effect) bool {
	// a defer of p executed before start on the way guarantees p at exit: approximate by
	// "a Defer matching p exists in a block that dominates start's block (or earlier in it)".
	sb := start.Block()
	for _, b := range fn.Blocks {
		for i, in := range b.Instrs {
			if _, ok := in.(*ssa.Defer); ok && p.Match(in) {
				if b == sb && i < indexIn(sb, start) {
					return false
				}
				if b != sb && b.Dominates(sb) {
					return false
				}
			}
		}
	}
	type pos struct {
		b *ssa.BasicBlock
		i int
	}
	seen := map[*ssa.BasicBlock]bool{}
	var walk func(b *ssa.BasicBlock, from int) bool
	walk = func(b *ssa.BasicBlock, from int) bool {
		for i := from; i < len(b.Instrs); i++ {
			in := b.Instrs[i]
			if p.Match(in) {
				return false
			}
			if _, ok := in.(*ssa.Return); ok {
				return true
			}
		}
		for _, s := range b.Succs {
			if seen[s] {
				continue
			}
			seen[s] = true
			if walk(s, 0) {
				return true
			}
		}
		return false
	}
	return walk(sb, indexIn(sb, start)+1)
}

// Pairing: after an instruction matching acquire, every path to a return that
// is not matched by `transfer` (ownership-transfer exits, may be nil) executes
// exactly one instruction matching release (a `defer release` counts once).
// Paths that never acquire must not release.
func (c *Ctx) Pairing(rule string, fn *ssa.Function, acquire, release Effect, transfer Effect) {
	if fn == nil {
		return
	}
	fname := c.P.Name(fn)
	construct := fname + "#pair:" + acquire.String() + "/" + release.String()
	if len(instrsMatching(fn, acquire)) == 0 {
		c.add("order", rule, construct, Undecided, c.P.Pos(fn.Pos()), "no acquire site (vacuous)")
		return
	}
	// state bitmask: 1=not acquired, 2=acquired/0 released, 4=acquired/1 released, 8=acquired/2+ released
	const (
		sNone = 1 << iota
		sHeld
		sRel
		sTwice
	)
	in := map[*ssa.BasicBlock]int{fn.Blocks[0]: sNone}
	step := func(st int, ins ssa.Instruction) int {
		if acquire.Match(ins) {
			n := 0
			if st&sNone != 0 {
				n |= sHeld
			}
			if st&sHeld != 0 {
				n |= sHeld // re-acquire in a loop: still one outstanding (conservative)
			}
			if st&sRel != 0 {
				n |= sHeld
			}
			if st&sTwice != 0 {
				n |= sTwice
			}
			return n
		}
		if release.Match(ins) {
			n := 0
			if st&sNone != 0 {
				n |= sNone // release without acquire on this path: ignored (other owner)
			}
			if st&sHeld != 0 {
				n |= sRel
			}
			if st&sRel != 0 {
				n |= sTwice
			}
			if st&sTwice != 0 {
				n |= sTwice
			}
			return n
		}
		return st
	}
	var leaks, doubles []string
	changed := true
	for iter := 0; changed && iter < 64; iter++ {
		changed = false
		for _, b := range fn.Blocks {
			st, ok := in[b]
			if !ok {
				continue
			}
			for _, ins := range b.Instrs {
				st = step(st, ins)
			}
			for _, s := range b.Succs {
				if in[s]|st != in[s] {
					in[s] |= st
					changed = true
				}
			}
		}
	}
	for _, b := range fn.Blocks {
		st, ok := in[b]
		if !ok || b == fn.Recover {
			continue
		}
		for _, ins := range b.Instrs {
			st = step(st, ins)
			if ret, ok := ins.(*ssa.Return); ok {
				isTransfer := transfer != nil && transfer.Match(ret)
				if st&sHeld != 0 && !isTransfer {
					leaks = append(leaks, c.P.InstrPos(ret))
				}
				if st&sRel != 0 && isTransfer && st&sHeld == 0 {
					doubles = append(doubles, c.P.InstrPos(ret)+"(released on a transfer exit)")
				}
				if st&sTwice != 0 {
					doubles = append(doubles, c.P.InstrPos(ret))
				}
			}
		}
	}
	switch {
	case len(leaks) > 0:
		c.add("order", rule, construct, Violated, leaks[0], fmt.Sprintf("in %s an exit is reachable after %q without %q: %s", fname, acquire.String(), release.String(), strings.Join(leaks, ", ")))
	case len(doubles) > 0:
		c.add("order", rule, construct, Violated, doubles[0], fmt.Sprintf("in %s %q may run twice (or on an ownership-transfer exit) after one %q: %s", fname, release.String(), acquire.String(), strings.Join(doubles, ", ")))
	default:
		c.add("order", rule, construct, Held, c.P.Pos(fn.Pos()), "every exit after the acquire passes exactly one release (ownership-transfer exits pass none)")
	}
}

// ErrUsed: every non-deferred call in fn whose callee matches one of callees and
// which returns an error has that error result consumed (tested, returned, stored or passed on).
func (c *Ctx) ErrUsed(rule string, fns []*ssa.Function, callees []string, exceptCallees []string) {
	n := 0
	var bad []string
	var badPos string
	for _, fn := range fns {
		for _, b := range fn.Blocks {
			for _, in := range b.Instrs {
				call, ok := in.(*ssa.Call)
				if !ok {
					continue
				}
				name := calleeName(&call.Call)
				if !globAny(callees, name) || globAny(exceptCallees, name) {
					continue
				}
				sig := call.Call.Signature()
				res := sig.Results()
				if res.Len() == 0 || !isErrorType(res.At(res.Len()-1).Type()) {
					continue
				}
				n++
				used := false
				if res.Len() == 1 {
					used = hasRealReferrers(call)
				} else {
					for _, r := range *call.Referrers() {
						if ex, ok := r.(*ssa.Extract); ok && ex.Index == res.Len()-1 && hasRealReferrers(ex) {
							used = true
						}
					}
				}
				if !used {
					bad = append(bad, fmt.Sprintf("%s in %s at %s", name, c.P.Name(fn), c.P.InstrPos(in)))
					if badPos == "" {
						badPos = c.P.InstrPos(in)
					}
				}
			}
		}
	}
	c.CallSites += n
	construct := "errused:" + strings.Join(callees, ",")
	switch {
	case n == 0:
		c.add("errdisc", rule, construct, Undecided, "", "no matching error-returning call found (vacuous)")
	case len(bad) > 0:
		c.add("errdisc", rule, construct, Violated, badPos, "error result dropped: "+strings.Join(bad, "; "))
	default:
		c.add("errdisc", rule, construct, Held, "", fmt.Sprintf("%d error-returning call(s) in %d function(s); every error result is consumed", n, len(fns)))
	}
}

func hasRealReferrers(v ssa.Value) bool {
	refs := v.Referrers()
	if refs == nil {
		return false
	}
	for _, r := range *refs {
		if _, ok := r.(*ssa.DebugRef); ok {
			continue
		}
		return true
	}
	return false
}

// ErrPropagates: in fn (and its closures), the error result of every call matching calleeGlob
// flows — directly or through wrapping calls (fmt.Errorf, errors.Join/Wrap…) — into a return
// statement of the function, i.e. a failure of the callee cannot be swallowed.
func (c *Ctx) ErrPropagates(rule string, fn *ssa.Function, calleeGlob string) {
	if fn == nil {
		return
	}
	fname := c.P.Name(fn)
	wrap := []string{"fmt.Errorf", "errors.Join", "errors.Wrap*", "github.com/pkg/errors.*", "*.wrap*Error*", "*.wrapErr*"}
	n := 0
	var bad []string
	for _, f := range WithClosures(fn) {
		for _, b := range f.Blocks {
			for _, in := range b.Instrs {
				call, ok := in.(*ssa.Call)
				if !ok || !(glob(calleeGlob, calleeName(&call.Call)) || glob(calleeGlob, renderCall(&call.Call, 0, nil))) {
					continue
				}
				res := call.Call.Signature().Results()
				if res.Len() == 0 || !isErrorType(res.At(res.Len()-1).Type()) {
					continue
				}
				n++
				var errv ssa.Value = call
				if res.Len() > 1 {
					errv = nil
					for _, r := range *call.Referrers() {
						if ex, ok := r.(*ssa.Extract); ok && ex.Index == res.Len()-1 {
							errv = ex
						}
					}
				}
				reaches := false
				if errv != nil {
					for _, e := range forwardFlow(errv, wrap) {
						if e.Kind == "return" {
							reaches = true
						}
					}
				}
				if !reaches {
					bad = append(bad, c.P.InstrPos(in))
				}
			}
		}
	}
	construct := fname + "#err-propagates:" + calleeGlob
	switch {
	case n == 0:
		c.add("errdisc", rule, construct, Undecided, c.P.Pos(fn.Pos()), "no error-returning call matches "+calleeGlob+" (vacuous)")
	case len(bad) > 0:
		c.add("errdisc", rule, construct, Violated, bad[0], fmt.Sprintf("the error of %s is not propagated to any return of %s (swallowed or only logged) at %s", calleeGlob, fname, strings.Join(bad, ", ")))
	default:
		c.add("errdisc", rule, construct, Held, c.P.Pos(fn.Pos()), fmt.Sprintf("%d call(s); the error result reaches a return", n))
	}
}
