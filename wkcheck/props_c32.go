package main

import (
	"fmt"
	"go/constant"
	"go/token"
	"go/types"
	"sort"
	"strings"

	"golang.org/x/tools/go/ssa"
)

func init() {
	const f = "internal/runtime/delivery/ack_tracker.go"
	register(&PropSpec{
		ID:        "C32",
		Pkgs:      []string{"./internal/runtime/delivery"},
		Technique: "static analysis: lockset (guarded-by) + key-set/counter coupling dataflow on the SSA CFG (every byMessage insert/delete is matched one-to-one by a pendingCount step in the same critical section) + edge-dominance guards for token/key/TTL matches",
		Explain:   "Decides the structural premises of the exact-count argument for AckTracker: (R1) both shard indexes are only touched with that shard's mutex held (…Locked helpers at locked call sites); (R2) every function that changes the key set of byMessage is enumerated and, on every CFG path, each insertion of a new key (not behind `existed`) and each deletion is matched one-to-one by a +1/-1 step of pendingCount (directly, or through a loop counter / result slice whose value is the Add delta and which can only be skipped when it is zero) before the shard lock is released or the function returns; Reset clears every shard and stores 0; nothing else mutates pendingCount; (R3) CancelBind/FinishBind act only behind the per-attempt token match and CancelBind removes a key only if it is neither committed nor held by another attempt, Ack/SessionClosed/CancelBind build the deleted key from exactly (uid, session, message) of the request, Expire deletes only behind !hasDeliveryAfter(now-ttl). NOT decided: that the count equals the number of outstanding deliveries as a value over arbitrary histories (only the one-to-one coupling per code path), bySession/byMessage cross-index consistency, bind token uniqueness (atomic counter trusted), behaviour of Reset concurrent with mutations (documented caller obligation).",
		Run:       c32,
		Mutants: []Mutant{
			{Name: "ack-drop-decrement", File: f, Old: "\tt.pendingCount.Add(-1)\n\treturn entry.pending, true", New: "\treturn entry.pending, true", Expect: "C32/R2-count*"},
			{Name: "cancel-ignores-committed", File: f, Old: "if entry.committed || entry.hasAttempts() {", New: "if entry.hasAttempts() {", Expect: "C32/R3-cancel*"},
			{Name: "cancel-any-primary", File: f, Old: "if e.primary == token {\n\t\te.primary = AckBindToken{}\n\t\tif !e.committed", New: "if e.primary.Valid() {\n\t\te.primary = AckBindToken{}\n\t\tif !e.committed", Expect: "C32/R3-token*"},
			{Name: "finish-any-primary", File: f, Old: "if e.primary == token {\n\t\te.primary = AckBindToken{}\n\t\te.committed = true", New: "if e.primary.Valid() {\n\t\te.primary = AckBindToken{}\n\t\te.committed = true", Expect: "C32/R3-token*"},
			{Name: "bind-counts-existing", File: f, Old: "if !existed {\n\t\treturn AckBindResult{Bound: true, Added: true", New: "if !existed || token.Valid() {\n\t\treturn AckBindResult{Bound: true, Added: true", Expect: "C32/R2-count*"},
			{Name: "batch-counts-existing", File: f, Old: "if !existed {\n\t\t\t\taddedInShard++", New: "if existed {\n\t\t\t\taddedInShard++", Expect: "C32/R2-count*"},
			{Name: "batch-add-after-unlock", File: f, Old: "\t\tif addedInShard > 0 {\n\t\t\tresult.Added += addedInShard\n\t\t\tt.pendingCount.Add(int64(addedInShard))\n\t\t}\n\t\tshard.mu.Unlock()", New: "\t\tshard.mu.Unlock()\n\t\tif addedInShard > 0 {\n\t\t\tresult.Added += addedInShard\n\t\t\tt.pendingCount.Add(int64(addedInShard))\n\t\t}", Expect: "C32/R2-count*"},
			{Name: "expire-ignores-inflight", File: f, Old: "if entry.hasDeliveryAfter(cutoff) {", New: "if entry.committed && entry.hasDeliveryAfter(cutoff) {", Expect: "C32/R3-expire*"},
			{Name: "expire-forgets-count", File: f, Old: "\t\t\tremovedInShard++\n", New: "", Expect: "C32/R2-count*"},
			{Name: "expire-extra-attempt-ignored", File: f, Old: "\t\tif e.extraAttempts[i].pending.DeliveredAt > cutoff {\n\t\t\treturn true\n\t\t}", New: "\t\tif e.extraAttempts[i].pending.DeliveredAt > cutoff {\n\t\t\treturn e.committed\n\t\t}", Expect: "C32/R3-expire*"},
			{Name: "session-closed-wrong-key", File: f, Old: "messageKey := ackMessageKey{uid: uid, sessionID: sessionID, messageID: messageID}\n\t\tif entry, ok", New: "messageKey := ackMessageKey{sessionID: sessionID, messageID: messageID}\n\t\tif entry, ok", Expect: "C32/R3-key*"},
			{Name: "session-closed-count-all", File: f, Old: "t.pendingCount.Add(-int64(len(removed)))", New: "t.pendingCount.Add(-int64(len(messageIDs)))", Expect: "C32/R2-count*"},
			{Name: "reset-keeps-count", File: f, Old: "\tt.pendingCount.Store(0)\n", New: "", Expect: "C32/R2-reset*"},
			{Name: "finish-unlocked", File: f, Old: "\tshard.mu.Lock()\n\tdefer shard.mu.Unlock()\n\treturn t.finishBindLocked(shard, pending, token)", New: "\treturn t.finishBindLocked(shard, pending, token)", Expect: "C32/R1-lock*"},
			{Name: "ack-wrong-session-shard", File: f, Old: "shard := t.shard(ack.SessionID)\n\tshard.mu.Lock()\n\tdefer shard.mu.Unlock()\n\n\tmessageKey := ackMessageKey{uid: ack.UID, sessionID: ack.SessionID, messageID: ack.MessageID}", New: "shard := t.shard(ack.SessionID)\n\tshard.mu.Lock()\n\tdefer shard.mu.Unlock()\n\n\tmessageKey := ackMessageKey{uid: ack.UID, sessionID: ack.SessionID, messageID: ack.MessageSeq}", Expect: "C32/R3-key*"},
		},
	})
}

const c32Pkg = "internal/runtime/delivery."

func c32(c *Ctx) {
	// ---- R1: guarded-by -------------------------------------------------
	c.Lockset("R1-lock", LockSpec{
		Struct:   c32Pkg + "ackTrackerShard",
		Mutex:    "mu",
		Fields:   []string{"byMessage", "bySession"},
		ReadsToo: true,
		AssumeHeld: []string{
			c32Pkg + "AckTracker.finishBindLocked",
			c32Pkg + "AckTracker.deleteSessionMessageLocked",
		},
		// constructor: the tracker is not shared before NewAckTracker returns
		Exempt: []string{c32Pkg + "NewAckTracker"},
	})
	c.ConfineStores("R1-lock", c32Pkg+"ackTrackerShard.byMessage", false, c32Pkg+"NewAckTracker")
	c.ConfineStores("R1-lock", c32Pkg+"ackTrackerShard.bySession", false, c32Pkg+"NewAckTracker")

	// ---- R2: key-set / counter coupling ---------------------------------
	byMsg := c.Field(c32Pkg + "ackTrackerShard.byMessage")
	cnt := c.Field(c32Pkg + "AckTracker.pendingCount")
	if byMsg == nil || cnt == nil {
		return
	}
	const existed = "*.byMessage[*]#1 == true"
	table := map[string]c32Mutator{
		c32Pkg + "AckTracker.BindResult":       {kind: "insert", delta: "1", unless: existed},
		c32Pkg + "AckTracker.BindBatch":        {kind: "insert", counted: true, unless: existed},
		c32Pkg + "AckTracker.CancelBind":       {kind: "delete", delta: "-1"},
		c32Pkg + "AckTracker.Ack":              {kind: "delete", delta: "-1"},
		c32Pkg + "AckTracker.SessionClosed":    {kind: "delete", counted: true},
		c32Pkg + "AckTracker.Expire":           {kind: "delete", counted: true},
		c32Pkg + "AckTracker.Reset":            {kind: "clear"},
		c32Pkg + "AckTracker.finishBindLocked": {kind: "restore"},
	}
	seen := map[string]bool{}
	for _, fn := range c.P.AllFuncs {
		ops := map[string]int{}
		for _, b := range fn.Blocks {
			for _, in := range b.Instrs {
				if k := c32MapOp(in, byMsg); k != "" {
					ops[k]++
				}
			}
		}
		if len(ops) == 0 {
			continue
		}
		name := c.P.Name(fn)
		m, ok := table[name]
		if !ok {
			c.add("confine", "R2-count", "mutator:"+name, Violated, c.P.Pos(fn.Pos()),
				fmt.Sprintf("%s mutates ackTrackerShard.byMessage (%v) but is not an enumerated key-set mutator with a pendingCount coupling rule", name, ops))
			continue
		}
		seen[name] = true
		c.FuncsAnalysed[name] = true
		c32CheckMutator(c, fn, name, m, byMsg, cnt, ops)
	}
	for name := range table {
		if !seen[name] {
			c.add("anchor", "R2-count", "mutator:"+name, Undecided, "", "enumerated byMessage mutator no longer mutates the map (renamed/moved? update the table)")
		}
	}
	// every mutation of the counter is one of the coupled steps above
	for _, s := range c.atomicSites(c32Pkg + "AckTracker.pendingCount") {
		name := c.P.Name(s.fn)
		if s.method == "Load" {
			continue
		}
		if _, ok := table[name]; !ok || table[name].kind == "restore" {
			c.add("confine", "R2-count", "counter-op:"+name+"#"+s.method, Violated, c.P.InstrPos(s.call),
				fmt.Sprintf("pendingCount.%s in %s, which is not an enumerated key-set mutator", s.method, name))
		}
	}
	c.Min("R2-count", 8)

	reset := c.Fn(c32Pkg + "AckTracker.Reset")
	c.FollowedBy("R2-reset", reset, CallTo{"clear(*.byMessage)"}, CallTo{"sync/atomic.Int64.Store(t.pendingCount, 0)"})
	c.Guard("R2-reset", reset, CallTo{"clear(*.byMessage)"}, "after: sync.Mutex.Lock(*.mu)")
	c.Guard("R2-reset", reset, CallTo{"sync/atomic.Int64.Store(t.pendingCount, 0)"}, "* >= len(t.shards)")

	// ---- R3: token / key / TTL guards -----------------------------------
	cancel := c.Fn(c32Pkg + "AckTracker.CancelBind")
	del := CallTo{"delete(*.byMessage, *)"}
	c.Guard("R3-cancel", cancel, OneOf{del, CallTo{c32Pkg + "AckTracker.deleteSessionMessageLocked"}},
		"*.byMessage[*]#1 == true",
		c32Pkg+"ackTrackerEntry.cancelAttempt(*, token) == true",
		"*.committed == false",
		c32Pkg+"ackTrackerEntry.hasAttempts(*) == false",
	)
	c.Guard("R3-cancel", cancel, StoreTo{Addr: "*.byMessage[*]"},
		"*.byMessage[*]#1 == true",
		c32Pkg+"ackTrackerEntry.cancelAttempt(*, token) == true",
	)
	c.Guard("R3-cancel", cancel, StoreTo{Addr: "*.Canceled", Val: "true"},
		c32Pkg+"ackTrackerEntry.cancelAttempt(*, token) == true")
	c.GuardTrue("R3-token", c.Fn(c32Pkg+"ackTrackerEntry.hasAttempts"), 0,
		c32Pkg+"AckBindToken.Valid(e.primary) == true || len(e.extraAttempts) > 0")

	const tokenMatch = "e.primary == token || e.extraAttempts[*].token == token"
	cancelAttempt := c.Fn(c32Pkg + "ackTrackerEntry.cancelAttempt")
	c.GuardTrue("R3-token", cancelAttempt, 0, tokenMatch)
	c.Guard("R3-token", cancelAttempt, OneOf{StoreTo{Addr: "e.*"}, CallTo{c32Pkg + "ackTrackerEntry.removeExtraAttempt"}}, tokenMatch)
	finishAttempt := c.Fn(c32Pkg + "ackTrackerEntry.finishAttempt")
	c.GuardTrue("R3-token", finishAttempt, 0, tokenMatch)
	c.Guard("R3-token", finishAttempt, OneOf{StoreTo{Addr: "e.*"}, CallTo{c32Pkg + "ackTrackerEntry.removeExtraAttempt"}}, tokenMatch)
	finishLocked := c.Fn(c32Pkg + "AckTracker.finishBindLocked")
	c.GuardTrue("R3-token", finishLocked, 0,
		"shard.byMessage[*]#1 == true", c32Pkg+"ackTrackerEntry.finishAttempt(*, token) == true")
	c.Guard("R3-token", finishLocked, StoreTo{Addr: "shard.byMessage[*]"},
		"shard.byMessage[*]#1 == true", c32Pkg+"ackTrackerEntry.finishAttempt(*, token) == true")

	// exact keys: the key looked up / removed is built from the request's (uid, session, message)
	ack := c.Fn(c32Pkg + "AckTracker.Ack")
	sess := c.Fn(c32Pkg + "AckTracker.SessionClosed")
	expire := c.Fn(c32Pkg + "AckTracker.Expire")
	bySess := c.Field(c32Pkg + "ackTrackerShard.bySession")
	for _, k := range []c32KeySpec{
		{fn: ack, uid: "ack.UID", sid: "ack.SessionID", mid: "ack.MessageID", session: true},
		{fn: cancel, uid: "pending.UID", sid: "pending.SessionID", mid: "pending.MessageID", session: true},
		{fn: sess, uid: "uid", sid: "sessionID", mid: "next(range(*.bySession[*]))#1", session: true},
		{fn: finishLocked, uid: "pending.UID", sid: "pending.SessionID", mid: "pending.MessageID"},
		{fn: c.Fn(c32Pkg + "AckTracker.BindResult"), uid: "pending.UID", sid: "pending.SessionID", mid: "pending.MessageID", session: true},
		{fn: c.Fn(c32Pkg + "AckTracker.BindBatch"), uid: "$X.UID", sid: "$X.SessionID", mid: "$X.MessageID", session: true},
		{fn: expire, uid: "$X.uid", sid: "$X.sessionID", mid: "$X.messageID", session: true, rangeKey: true},
	} {
		c32KeyRule(c, "R3-key", k, byMsg, bySess)
	}
	c.Guard("R3-key", ack, OneOf{del, Ret{Idx: 1, Glob: "true"}}, "*.byMessage[*]#1 == true")
	// the shard locked is the shard of the request's session id
	c.CallShape("R3-key", ack, c32Pkg+"AckTracker.shard", c32Pkg+"AckTracker.shard(t, ack.SessionID)")
	c.CallShape("R3-key", cancel, c32Pkg+"AckTracker.shard", c32Pkg+"AckTracker.shard(t, pending.SessionID)")
	c.CallShape("R3-key", sess, c32Pkg+"AckTracker.shard", c32Pkg+"AckTracker.shard(t, sessionID)")
	dsl := c.Fn(c32Pkg + "AckTracker.deleteSessionMessageLocked")
	c.CallShape("R3-key", dsl, "delete", "delete(shard.bySession[key], messageID)", "delete(shard.bySession, key)")
	c.Guard("R3-key", dsl, CallTo{"delete(shard.bySession, key)"}, "len(shard.bySession[key]) == 0")

	// expiry
	c.Guard("R3-expire", expire, OneOf{del, CallTo{c32Pkg + "AckTracker.deleteSessionMessageLocked"}},
		c32Pkg+"ackTrackerEntry.hasDeliveryAfter(*) == false", "ttl > 0")
	c.CallShape("R3-expire", expire, c32Pkg+"ackTrackerEntry.hasDeliveryAfter", c32Pkg+"ackTrackerEntry.hasDeliveryAfter(*, (dyn:t.now() - *ttl*))")
	c32ExpireChecksRemovedEntry(c, "R3-expire", expire, byMsg)
	hda := c.Fn(c32Pkg + "ackTrackerEntry.hasDeliveryAfter")
	c.Guard("R3-expire", hda, RetNot{Idx: 0, Globs: []string{"true"}},
		"e.pending.DeliveredAt <= cutoff",
		"* >= len(e.extraAttempts)",
	)
	c32LoopContinuesOnlyBehind(c, "R3-expire", hda, "e.extraAttempts[*].pending.DeliveredAt <= cutoff")
}

// ---------------------------------------------------------------------------
// helpers (C32-private)

// c32KeySpec: how the (uid, session, message) identity used by fn must be built.
// Patterns are globs on rendered values; a pattern starting with "$X" binds X to one
// common prefix for the whole function (e.g. the batch item or the range key).
type c32KeySpec struct {
	fn            *ssa.Function
	uid, sid, mid string
	session       bool // fn also builds ackSessionKey literals / passes them to deleteSessionMessageLocked
	rangeKey      bool // the message key is the range key of byMessage itself (Expire)
}

func c32Match(pat, val string, bind *string) bool {
	if strings.HasPrefix(pat, "$X") {
		suffix := pat[2:]
		if !strings.HasSuffix(val, suffix) {
			return false
		}
		x := strings.TrimSuffix(val, suffix)
		if *bind == "" {
			*bind = x
		}
		return *bind == x
	}
	return glob(pat, val)
}

// c32Literals collects composite literals (fresh allocs) of the named struct type built in fn.
func c32Literals(fn *ssa.Function, typeName string) map[*ssa.Alloc]map[string]ssa.Value {
	out := map[*ssa.Alloc]map[string]ssa.Value{}
	for _, b := range fn.Blocks {
		for _, in := range b.Instrs {
			st, ok := in.(*ssa.Store)
			if !ok {
				continue
			}
			fa, ok := st.Addr.(*ssa.FieldAddr)
			if !ok {
				continue
			}
			a, ok := fa.X.(*ssa.Alloc)
			if !ok || typeBaseName(a.Type()) != typeName || spilledParam(a) != nil {
				continue
			}
			if out[a] == nil {
				out[a] = map[string]ssa.Value{}
			}
			out[a][fieldName(fa.X.Type(), fa.Field)] = st.Val
		}
	}
	return out
}

func c32LoadOf(v ssa.Value) *ssa.Alloc {
	if u, ok := stripConv(v).(*ssa.UnOp); ok && u.Op == token.MUL {
		a, _ := u.X.(*ssa.Alloc)
		return a
	}
	return nil
}

// c32IsRangeKeyOf: v is the key of a `range` over the map stored in field fv
// (directly, or through a local that is assigned exactly once from it).
func c32IsRangeKeyOf(v ssa.Value, fv *types.Var) bool {
	v = stripConv(v)
	if a := c32LoadOf(v); a != nil {
		var src ssa.Value
		n := 0
		for _, r := range *a.Referrers() {
			if st, ok := r.(*ssa.Store); ok && st.Addr == a {
				n++
				src = st.Val
			}
		}
		if n != 1 {
			return false
		}
		v = stripConv(src)
	}
	ex, ok := v.(*ssa.Extract)
	if !ok || ex.Index != 1 {
		return false
	}
	nx, ok := ex.Tuple.(*ssa.Next)
	if !ok {
		return false
	}
	r, ok := nx.Iter.(*ssa.Range)
	return ok && c32IsFieldLoad(r.X, fv)
}

// c32MapKeyUses lists the key operands of every lookup / update / delete on the map in field fv.
func c32MapKeyUses(fn *ssa.Function, fv *types.Var) []ssa.Value {
	var out []ssa.Value
	for _, b := range fn.Blocks {
		for _, in := range b.Instrs {
			switch x := in.(type) {
			case *ssa.Lookup:
				if c32IsFieldLoad(x.X, fv) {
					out = append(out, x.Index)
				}
			case *ssa.MapUpdate:
				if c32IsFieldLoad(x.Map, fv) {
					out = append(out, x.Key)
				}
			case ssa.CallInstruction:
				cc := x.Common()
				if bi, ok := cc.Value.(*ssa.Builtin); ok && bi.Name() == "delete" && len(cc.Args) == 2 && c32IsFieldLoad(cc.Args[0], fv) {
					out = append(out, cc.Args[1])
				}
			}
		}
	}
	return out
}

// c32KeyRule decides: every ackMessageKey / ackSessionKey literal in fn is complete and built from
// the request identity; every byMessage / bySession access in fn is keyed by such a literal (or,
// in rangeKey mode, by the byMessage range key X with the session key and message id derived from X).
func c32KeyRule(c *Ctx, rule string, k c32KeySpec, byMsg, bySess *types.Var) {
	fn := k.fn
	if fn == nil || bySess == nil {
		return
	}
	name := c.P.Name(fn)
	c.FuncsAnalysed[name] = true
	var bad []string
	bind := ""
	nLit, nUse := 0, 0
	msgLits := c32Literals(fn, "ackMessageKey")
	sessLits := c32Literals(fn, "ackSessionKey")
	if k.rangeKey {
		// bind X to the deleted key first
		for _, key := range c32MapKeyUses(fn, byMsg) {
			nUse++
			if !c32IsRangeKeyOf(key, byMsg) {
				bad = append(bad, "byMessage is accessed with key "+Path(key)+" which is not the key of the range over byMessage")
				continue
			}
			if bind == "" {
				bind = Path(key)
			} else if bind != Path(key) {
				bad = append(bad, "byMessage is accessed with two different keys "+bind+" / "+Path(key))
			}
		}
		if len(msgLits) > 0 {
			bad = append(bad, "unexpected ackMessageKey literal in a range-key function")
		}
	} else {
		for a, fields := range msgLits {
			nLit++
			for f, pat := range map[string]string{"uid": k.uid, "sessionID": k.sid, "messageID": k.mid} {
				v, ok := fields[f]
				if !ok {
					bad = append(bad, fmt.Sprintf("ackMessageKey literal at %s omits %s", c.P.Pos(a.Pos()), f))
				} else if !c32Match(pat, Path(v), &bind) {
					bad = append(bad, fmt.Sprintf("ackMessageKey.%s = %s, expected %s (X=%s)", f, Path(v), pat, bind))
				}
			}
		}
		if nLit == 0 {
			bad = append(bad, "no ackMessageKey literal found")
		}
		for _, key := range c32MapKeyUses(fn, byMsg) {
			nUse++
			if a := c32LoadOf(key); a == nil || msgLits[a] == nil {
				bad = append(bad, "byMessage is accessed with key "+Path(key)+" which is not the checked ackMessageKey literal")
			}
		}
	}
	if k.session {
		for a, fields := range sessLits {
			nLit++
			for f, pat := range map[string]string{"uid": k.uid, "sessionID": k.sid} {
				v, ok := fields[f]
				if !ok {
					bad = append(bad, fmt.Sprintf("ackSessionKey literal at %s omits %s", c.P.Pos(a.Pos()), f))
				} else if !c32Match(pat, Path(v), &bind) {
					bad = append(bad, fmt.Sprintf("ackSessionKey.%s = %s, expected %s (X=%s)", f, Path(v), pat, bind))
				}
			}
		}
		if len(sessLits) == 0 {
			bad = append(bad, "no ackSessionKey literal found")
		}
		for _, key := range c32MapKeyUses(fn, bySess) {
			nUse++
			if a := c32LoadOf(key); a == nil || sessLits[a] == nil {
				bad = append(bad, "bySession is accessed with key "+Path(key)+" which is not the checked ackSessionKey literal")
			}
		}
		for _, b := range fn.Blocks {
			for _, in := range b.Instrs {
				ci, ok := in.(ssa.CallInstruction)
				if !ok || calleeName(ci.Common()) != c32Pkg+"AckTracker.deleteSessionMessageLocked" {
					continue
				}
				nUse++
				args := ci.Common().Args
				if len(args) != 4 {
					continue
				}
				if a := c32LoadOf(args[2]); a == nil || sessLits[a] == nil {
					bad = append(bad, "deleteSessionMessageLocked is called with session key "+Path(args[2])+" which is not the checked literal")
				}
				if !c32Match(k.mid, Path(args[3]), &bind) {
					bad = append(bad, fmt.Sprintf("deleteSessionMessageLocked is called with message id %s, expected %s (X=%s)", Path(args[3]), k.mid, bind))
				}
			}
		}
	}
	construct := "exact-key:" + name
	sort.Strings(bad)
	switch {
	case len(bad) > 0:
		c.add("shape", rule, construct, Violated, c.P.Pos(fn.Pos()), strings.Join(bad, "; "))
	case nUse == 0:
		c.add("shape", rule, construct, Undecided, c.P.Pos(fn.Pos()), "no keyed access found (vacuous)")
	default:
		c.add("shape", rule, construct, Held, c.P.Pos(fn.Pos()), fmt.Sprintf("%d key literal(s) built from (%s, %s, %s)%s; %d keyed map access(es)/helper call(s) all use them", nLit, k.uid, k.sid, k.mid, map[bool]string{true: " with X=" + bind, false: ""}[bind != ""], nUse))
	}
}

// c32ExpireChecksRemovedEntry: the entry tested by hasDeliveryAfter is the value of the very
// range iteration whose key is deleted.
func c32ExpireChecksRemovedEntry(c *Ctx, rule string, fn *ssa.Function, byMsg *types.Var) {
	if fn == nil {
		return
	}
	name := c.P.Name(fn)
	construct := name + "#tested-entry-is-removed-entry"
	rangeOf := func(v ssa.Value, idx int) *ssa.Next {
		v = stripConv(v)
		if a := c32LoadOf(v); a != nil {
			n := 0
			for _, r := range *a.Referrers() {
				if st, ok := r.(*ssa.Store); ok && st.Addr == a {
					n++
					v = stripConv(st.Val)
				}
			}
			if n != 1 {
				return nil
			}
		}
		ex, ok := v.(*ssa.Extract)
		if !ok || ex.Index != idx {
			return nil
		}
		nx, _ := ex.Tuple.(*ssa.Next)
		return nx
	}
	var tested, deleted []*ssa.Next
	bad := false
	for _, b := range fn.Blocks {
		for _, in := range b.Instrs {
			ci, ok := in.(ssa.CallInstruction)
			if !ok {
				continue
			}
			cc := ci.Common()
			if calleeName(cc) == c32Pkg+"ackTrackerEntry.hasDeliveryAfter" && len(cc.Args) > 0 {
				nx := rangeOf(cc.Args[0], 2)
				if nx == nil {
					bad = true
				}
				tested = append(tested, nx)
			}
			if c32MapOp(in, byMsg) == "delete" {
				nx := rangeOf(cc.Args[1], 1)
				if nx == nil {
					bad = true
				}
				deleted = append(deleted, nx)
			}
		}
	}
	if bad || len(tested) != 1 || len(deleted) != 1 || tested[0] != deleted[0] {
		c.add("shape", rule, construct, Violated, c.P.Pos(fn.Pos()), "the entry passed to hasDeliveryAfter is not the value of the range iteration whose key is deleted")
		return
	}
	c.add("shape", rule, construct, Held, c.P.Pos(fn.Pos()), "hasDeliveryAfter tests the value and delete removes the key of the same range step")
}

type c32Mutator struct {
	kind    string // insert | delete | clear | restore
	delta   string // rendered constant delta of the direct pendingCount.Add ("1", "-1")
	counted bool   // the delta is a loop counter / len(result slice)
	unless  string // guard under which an insert site does not create a new key
}

func c32IsFieldLoad(v ssa.Value, fv *types.Var) bool {
	switch x := v.(type) {
	case *ssa.UnOp:
		if x.Op != token.MUL {
			return false
		}
		fa, ok := x.X.(*ssa.FieldAddr)
		return ok && fieldVar(fa.X.Type(), fa.Field) == fv
	case *ssa.Field:
		return fieldVar(x.X.Type(), x.Field) == fv
	}
	return false
}

// c32MapOp classifies an instruction as a mutation of the map stored in struct field fv.
func c32MapOp(in ssa.Instruction, fv *types.Var) string {
	switch x := in.(type) {
	case *ssa.MapUpdate:
		if c32IsFieldLoad(x.Map, fv) {
			return "set"
		}
	case ssa.CallInstruction:
		cc := x.Common()
		if b, ok := cc.Value.(*ssa.Builtin); ok && len(cc.Args) > 0 && c32IsFieldLoad(cc.Args[0], fv) {
			switch b.Name() {
			case "delete", "clear":
				return b.Name()
			}
		}
	}
	return ""
}

// c32CounterAdd: is `in` a call of sync/atomic.Int64.<method> on field fv; returns the call.
func c32CounterOp(in ssa.Instruction, fv *types.Var, method string) *ssa.CallCommon {
	ci, ok := in.(ssa.CallInstruction)
	if !ok {
		return nil
	}
	cc := ci.Common()
	callee, ok := cc.Value.(*ssa.Function)
	if !ok || cc.IsInvoke() || len(cc.Args) == 0 || callee.Name() != method {
		return nil
	}
	fa, ok := cc.Args[0].(*ssa.FieldAddr)
	if !ok || fieldVar(fa.X.Type(), fa.Field) != fv {
		return nil
	}
	return cc
}

func c32IsLen(v ssa.Value) (ssa.Value, bool) {
	call, ok := v.(*ssa.Call)
	if !ok {
		return nil, false
	}
	if b, ok := call.Call.Value.(*ssa.Builtin); ok && b.Name() == "len" && len(call.Call.Args) == 1 {
		return stripConv(call.Call.Args[0]), true
	}
	return nil, false
}

// c32SameCounter: a and b denote the same counter value (SSA identity, or len() of the same slice value).
func c32SameCounter(a, b ssa.Value) bool {
	a, b = stripConv(a), stripConv(b)
	if a == b {
		return true
	}
	la, ok1 := c32IsLen(a)
	lb, ok2 := c32IsLen(b)
	return ok1 && ok2 && la == lb
}

func c32IsZeroConst(v ssa.Value) bool {
	k, ok := v.(*ssa.Const)
	if !ok {
		return false
	}
	if k.Value == nil {
		return true // nil slice
	}
	return k.Value.Kind() == constant.Int && constant.Sign(k.Value) == 0
}

func c32IsOneConst(v ssa.Value) bool {
	k, ok := v.(*ssa.Const)
	return ok && k.Value != nil && k.Value.Kind() == constant.Int && k.Value.ExactString() == "1"
}

// c32Family resolves the accumulator rooted at root: the phi closure, its zero
// sources (as CFG edges) and its +1 steps (x+1 / append(x, one element)).
func c32Family(root ssa.Value) (steps map[ssa.Instruction]bool, resets map[edge]bool, problems []string) {
	steps = map[ssa.Instruction]bool{}
	resets = map[edge]bool{}
	fam := map[ssa.Value]bool{}
	var visit func(v ssa.Value, from *ssa.Phi, idx int)
	visit = func(v ssa.Value, from *ssa.Phi, idx int) {
		v = stripConv(v)
		if fam[v] {
			return
		}
		switch x := v.(type) {
		case *ssa.Phi:
			fam[x] = true
			for i, e := range x.Edges {
				visit(e, x, i)
			}
			return
		case *ssa.BinOp:
			if x.Op == token.ADD {
				if c32IsOneConst(x.Y) {
					fam[x] = true
					steps[x] = true
					visit(x.X, nil, 0)
					return
				}
				if c32IsOneConst(x.X) {
					fam[x] = true
					steps[x] = true
					visit(x.Y, nil, 0)
					return
				}
			}
		case *ssa.Call:
			if b, ok := x.Call.Value.(*ssa.Builtin); ok && b.Name() == "append" && len(x.Call.Args) == 2 {
				if sl, ok := x.Call.Args[1].(*ssa.Slice); ok && sl.Low == nil && sl.High == nil {
					if pt, ok := sl.X.Type().Underlying().(*types.Pointer); ok {
						if at, ok := pt.Elem().Underlying().(*types.Array); ok && at.Len() == 1 {
							fam[x] = true
							steps[x] = true
							visit(x.Call.Args[0], nil, 0)
							return
						}
					}
				}
			}
		case *ssa.MakeSlice:
			if c32IsZeroConst(x.Len) && from != nil {
				c32AddResetEdge(resets, from, idx)
				return
			}
		case *ssa.Const:
			if c32IsZeroConst(x) && from != nil {
				c32AddResetEdge(resets, from, idx)
				return
			}
		}
		problems = append(problems, "accumulator has an unrecognised source "+Path(v))
	}
	if _, ok := stripConv(root).(*ssa.Phi); !ok {
		problems = append(problems, "counter "+Path(root)+" is not a loop-carried accumulator")
		return
	}
	visit(root, nil, 0)
	return
}

func c32AddResetEdge(resets map[edge]bool, phi *ssa.Phi, idx int) {
	b := phi.Block()
	if idx >= len(b.Preds) {
		return
	}
	p := b.Preds[idx]
	for si, s := range p.Succs {
		if s == b {
			resets[edge{p, si}] = true
		}
	}
}

// c32ZeroEdges: CFG edges on which counter `ctr` is known to be zero (or non-positive).
func c32ZeroEdges(fn *ssa.Function, ctr ssa.Value) map[edge]bool {
	out := map[edge]bool{}
	for _, b := range fn.Blocks {
		if len(b.Instrs) == 0 {
			continue
		}
		iff, ok := b.Instrs[len(b.Instrs)-1].(*ssa.If)
		if !ok {
			continue
		}
		bin, ok := iff.Cond.(*ssa.BinOp)
		if !ok {
			continue
		}
		op := bin.Op.String()
		x, y := bin.X, bin.Y
		if c32IsZeroConst(stripConv(x)) && c32SameCounter(y, ctr) {
			x, y = y, x
			op = mirrorOp[op]
		}
		if !c32SameCounter(x, ctr) || !c32IsZeroConst(stripConv(y)) {
			continue
		}
		switch op {
		case ">", "!=":
			out[edge{b, 1}] = true
		case "<=", "==":
			out[edge{b, 0}] = true
		}
	}
	return out
}

// c32CheckMutator decides the coupling rule for one enumerated byMessage mutator.
func c32CheckMutator(c *Ctx, fn *ssa.Function, name string, m c32Mutator, byMsg, cnt *types.Var, ops map[string]int) {
	construct := "coupling:" + name
	pos := c.P.Pos(fn.Pos())
	bad := func(format string, a ...any) {
		c.add("couple", "R2-count", construct, Violated, pos, fmt.Sprintf(format, a...))
	}
	switch m.kind {
	case "clear":
		if ops["set"] > 0 || ops["delete"] > 0 {
			bad("%s is the enumerated clear-all site but also sets/deletes single keys", name)
			return
		}
		c.add("couple", "R2-count", construct, Held, pos, "clear-all site; pairing with Store(0) decided by R2-reset")
		return
	case "restore":
		if ops["delete"] > 0 || ops["clear"] > 0 {
			bad("%s may only re-store an existing key but deletes/clears", name)
			return
		}
		// decided by the R3 guard (store behind the comma-ok hit); nothing to count
		c.add("couple", "R2-count", construct, Held, pos, "re-stores an existing key only (guarded by the lookup hit, see R3-token); key set unchanged")
		return
	}
	if ops["clear"] > 0 {
		bad("%s clears byMessage but is not the enumerated clear-all site", name)
		return
	}
	siteKind := "set"
	if m.kind == "delete" {
		siteKind = "delete"
	} else if ops["delete"] > 0 {
		bad("%s is an insert site but also deletes keys", name)
		return
	}
	site := func(in ssa.Instruction) bool { return c32MapOp(in, byMsg) == siteKind }
	// in delete functions a MapUpdate is a re-store and must sit behind the lookup hit
	if m.kind == "delete" && ops["set"] > 0 {
		c.Guard("R2-count", fn, InstrFn{"re-store byMessage[k]", func(in ssa.Instruction) bool { return c32MapOp(in, byMsg) == "set" }}, "*.byMessage[*]#1 == true")
	}
	// locate the Add(s)
	var adds []ssa.Instruction
	for _, b := range fn.Blocks {
		for _, in := range b.Instrs {
			if c32CounterOp(in, cnt, "Add") != nil {
				adds = append(adds, in)
			}
			for _, meth := range []string{"Store", "Swap", "CompareAndSwap"} {
				if c32CounterOp(in, cnt, meth) != nil {
					bad("%s mutates pendingCount with %s", name, meth)
					return
				}
			}
		}
	}
	if len(adds) != 1 {
		bad("%s has %d pendingCount.Add sites, expected exactly one", name, len(adds))
		return
	}
	add := adds[0]
	delta := c32CounterOp(add, cnt, "Add").Args[1]
	fl := &c32Flow{fn: fn, site: site}
	if m.unless != "" {
		fl.unless, _ = guardEdges(fn, parseGuard(m.unless))
	}
	if !m.counted {
		if Path(delta) != m.delta {
			bad("%s adds %s to pendingCount, expected %s", name, Path(delta), m.delta)
			return
		}
		fl.step = func(in ssa.Instruction) bool { return in == add }
	} else {
		v := stripConv(delta)
		neg := false
		if u, ok := v.(*ssa.UnOp); ok && u.Op == token.SUB {
			neg = true
			v = stripConv(u.X)
		}
		if neg != (m.kind == "delete") {
			bad("%s adds %s to pendingCount: wrong sign for a %s site", name, Path(delta), m.kind)
			return
		}
		root := v
		if s, ok := c32IsLen(v); ok {
			root = s
		}
		steps, resets, problems := c32Family(root)
		if len(problems) > 0 {
			bad("%s: delta %s: %s", name, Path(delta), strings.Join(problems, "; "))
			return
		}
		if len(steps) == 0 {
			bad("%s: counter %s is never incremented", name, Path(v))
			return
		}
		fl.counted = true
		fl.step = func(in ssa.Instruction) bool { return steps[in] }
		fl.flush = func(in ssa.Instruction) bool { return in == add }
		fl.zero = c32ZeroEdges(fn, v)
		fl.reset = resets
	}
	problems := fl.run(c)
	if len(problems) > 0 {
		bad("%s", strings.Join(problems, "; "))
		return
	}
	mode := "direct Add(" + m.delta + ")"
	if m.counted {
		mode = "loop-counted Add(" + Path(delta) + ")"
	}
	c.add("couple", "R2-count", construct, Held, c.P.InstrPos(add),
		fmt.Sprintf("%s of byMessage: every %s is matched one-to-one by a pendingCount step (%s) before any lock operation or return; %d exemption edge(s) [%s]", m.kind, siteKind, mode, len(fl.unless), m.unless))
}

// c32Flow: forward may-dataflow over (balance, unflushed):
//
//	balance   = #key-set mutation sites − #count steps since the last checkpoint, in {-1,0,+1}
//	unflushed = a count step has happened whose total has not yet been applied to the atomic
//
// Checkpoints (return, any mutex Lock/Unlock, re-initialisation of the
// accumulator) require balance 0 and nothing unflushed.
type c32Flow struct {
	fn      *ssa.Function
	site    func(ssa.Instruction) bool
	step    func(ssa.Instruction) bool
	flush   func(ssa.Instruction) bool // counted mode only
	counted bool
	unless  map[edge]bool // a pending site is discharged (not a new key)
	zero    map[edge]bool // the accumulator is known zero: nothing unflushed
	reset   map[edge]bool // the accumulator restarts from zero
}

func c32bit(bal, unfl int) uint8 { return 1 << uint((bal+1)*2+unfl) }

func (f *c32Flow) run(c *Ctx) []string {
	fn := f.fn
	probs := map[string]bool{}
	report := false
	note := func(in ssa.Instruction, msg string) {
		if report {
			probs[msg+" at "+c.P.InstrPos(in)] = true
		}
	}
	isCheckpoint := func(in ssa.Instruction) bool {
		switch x := in.(type) {
		case *ssa.Return:
			return true
		case *ssa.Call:
			_, op := lockOp(&x.Call)
			return op != ""
		}
		return false
	}
	transfer := func(st uint8, in ssa.Instruction) uint8 {
		isSite, isStep := f.site(in), f.step(in)
		isFlush := f.flush != nil && f.flush(in)
		cp := isCheckpoint(in)
		if !isSite && !isStep && !isFlush && !cp {
			return st
		}
		var out uint8
		for bal := -1; bal <= 1; bal++ {
			for unfl := 0; unfl <= 1; unfl++ {
				if st&c32bit(bal, unfl) == 0 {
					continue
				}
				nb, nu := bal, unfl
				switch {
				case isSite:
					if bal == 1 {
						note(in, "two key-set mutations with no count step between them")
						continue
					}
					nb = bal + 1
				case isStep:
					if bal == -1 {
						note(in, "two count steps for one key-set mutation")
						continue
					}
					nb = bal - 1
					if f.counted {
						nu = 1
					}
				case isFlush:
					if bal != 0 {
						note(in, "the counter is applied while a key-set mutation is still uncounted (or over-counted)")
						nb = 0
					}
					nu = 0
				case cp:
					if bal == 1 {
						note(in, "a key-set mutation reaches a return/lock operation without its pendingCount step")
					}
					if bal == -1 {
						note(in, "a pendingCount step reaches a return/lock operation without a key-set mutation")
					}
					if unfl == 1 {
						note(in, "counted mutations reach a return/lock operation before the count is added to pendingCount")
					}
					nb, nu = 0, 0
				}
				out |= c32bit(nb, nu)
			}
		}
		return out
	}
	edgeTransfer := func(st uint8, e edge) uint8 {
		var out uint8
		for bal := -1; bal <= 1; bal++ {
			for unfl := 0; unfl <= 1; unfl++ {
				if st&c32bit(bal, unfl) == 0 {
					continue
				}
				nb, nu := bal, unfl
				if f.unless[e] && bal == 1 {
					nb = 0
				}
				if f.zero[e] {
					nu = 0
				}
				if f.reset[e] {
					if nu == 1 && len(e.from.Instrs) > 0 {
						note(e.from.Instrs[len(e.from.Instrs)-1], "the accumulator restarts from zero while counted mutations are not yet added to pendingCount")
					}
					nu = 0
				}
				out |= c32bit(nb, nu)
			}
		}
		return out
	}
	in := map[*ssa.BasicBlock]uint8{fn.Blocks[0]: c32bit(0, 0)}
	pass := func() bool {
		changed := false
		for _, b := range fn.Blocks {
			st, ok := in[b]
			if !ok || b == fn.Recover {
				continue
			}
			for _, ins := range b.Instrs {
				st = transfer(st, ins)
			}
			for si, s := range b.Succs {
				o := edgeTransfer(st, edge{b, si})
				if in[s]|o != in[s] {
					in[s] |= o
					changed = true
				}
			}
		}
		return changed
	}
	for i := 0; i < 64 && pass(); i++ {
	}
	report = true
	pass()
	var out []string
	for p := range probs {
		out = append(out, p)
	}
	sort.Strings(out)
	return out
}

// c32LoopContinuesOnlyBehind: every back edge of a loop in fn (an edge whose target
// dominates its source) that leaves a block ending in a conditional is taken only on an
// edge that establishes guard — "the scan moves on to the next element only if this one
// does not qualify".
func c32LoopContinuesOnlyBehind(c *Ctx, rule string, fn *ssa.Function, guard string) {
	if fn == nil {
		return
	}
	name := c.P.Name(fn)
	g := parseGuard(guard)
	ok, _ := guardEdges(fn, g)
	n := 0
	var bad []string
	for _, b := range fn.Blocks {
		for si, s := range b.Succs {
			if !s.Dominates(b) {
				continue
			}
			n++
			if !ok[edge{b, si}] {
				bad = append(bad, c.P.InstrPos(b.Instrs[len(b.Instrs)-1]))
			}
		}
	}
	construct := name + "#loop-continue⇐" + guard
	switch {
	case n == 0:
		c.add("guard", rule, construct, Undecided, c.P.Pos(fn.Pos()), "no loop back edge found (vacuous)")
	case len(bad) > 0:
		c.add("guard", rule, construct, Violated, bad[0], fmt.Sprintf("the scan in %s continues with the next element without establishing %q (at %s)", name, guard, strings.Join(bad, ", ")))
	default:
		c.add("guard", rule, construct, Held, c.P.Pos(fn.Pos()), fmt.Sprintf("%d loop back edge(s), each taken only on an edge establishing %q", n, guard))
	}
}
