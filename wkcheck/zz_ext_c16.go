package main

import (
	"fmt"
	"go/ast"
	"go/constant"
	"go/token"
	"go/types"
	"sort"
	"strings"

	"golang.org/x/tools/go/packages"
	"golang.org/x/tools/go/ssa"
)

// Extension rules for C16 found by seeded change C16-c (the directory resume key lost its last
// component, so a page boundary skips every sibling entry sharing the shorter key).
//
// X1-resume-key decides the structural clause behind "a paginated directory pass lists each live
// membership exactly once for any page size", for EVERY paged scan (Table.ScanIndex / ScanPrimary* with
// an `after` argument) over the two membership tables in pkg/db/meta:
//
//	(a) full key : every non-nil value that reaches `after` is a COMPLETE key of the scanned index -
//	    it has exactly as many parts as the Layout declared for that index (or the primary key) in the
//	    table's TableSpec, and part i is built by the constructor of Layout[i]'s kind. The scan resumes
//	    at PrefixEnd(encode(after)); only a complete key makes that "strictly after the last emitted
//	    entry" - a shorter key skips all entries that share it, a longer/wrongly typed one is rejected.
//	(b) round trip: the cursor handed back to the caller is rebuilt from the scan's `next` key parts so
//	    that cursor field F is read from next[k] (with the accessor of that part's kind) exactly when
//	    after[k] is built from cursor.F, and every non-prefix position of the key is carried by the cursor.
//
// Layouts are read from the TableSpec composite literal (typed constants, not text); key shapes from SSA
// (through key-builder helpers); nothing depends on local variable names.
// NOT decided here: iterator behaviour of scanIndexWithOptions/scanPrimary themselves (that PrefixEnd of a
// full key excludes exactly one entry; row re-validation), and rows mutated while a pass is in flight.
func init() {
	extend("C16", nil, func(c *Ctx) {
		xc16ResumeKeys(c, "X1-resume-key", []string{"userChannelMembershipTable", "userCMDChannelMembershipTable"}, 2)
	},
		Mutant{Name: "x-resume-key-drops-channel-type", File: "pkg/db/meta/table_user_channel_membership.go",
			Old:    "after = KeyParts{String(uid), Int64Desc(cursor.ActivatedAt), String(cursor.ChannelID), Int64Ordered(cursor.ChannelType)}",
			New:    "after = KeyParts{String(uid), Int64Desc(cursor.ActivatedAt), String(cursor.ChannelID)}",
			Expect: "C16/X1-resume-key/*ListUserChannelMembershipPage*full-key*"},
		Mutant{Name: "x-resume-key-activation-only", File: "pkg/db/meta/table_user_channel_membership.go",
			Old:    "after = KeyParts{String(uid), Int64Desc(cursor.ActivatedAt), String(cursor.ChannelID), Int64Ordered(cursor.ChannelType)}",
			New:    "after = KeyParts{String(uid), Int64Desc(cursor.ActivatedAt)}",
			Expect: "C16/X1-resume-key/*ListUserChannelMembershipPage*full-key*"},
		Mutant{Name: "x-resume-key-wrong-order-kind", File: "pkg/db/meta/table_user_channel_membership.go",
			Old:    "after = KeyParts{String(uid), Int64Desc(cursor.ActivatedAt), String(cursor.ChannelID), Int64Ordered(cursor.ChannelType)}",
			New:    "after = KeyParts{String(uid), Int64Ordered(cursor.ActivatedAt), String(cursor.ChannelID), Int64Ordered(cursor.ChannelType)}",
			Expect: "C16/X1-resume-key/*ListUserChannelMembershipPage*full-key*"},
		Mutant{Name: "x-cmd-resume-key-drops-channel-type", File: "pkg/db/meta/table_user_cmd_channel_membership.go",
			Old:    "after = userCMDChannelMembershipPrimaryKey(uid, cursor.CommandChannelID, cursor.ChannelType)",
			New:    "after = KeyParts{String(uid), String(cursor.CommandChannelID)}",
			Expect: "C16/X1-resume-key/*ListUserCMDChannelMembershipPage*full-key*"},
		Mutant{Name: "x-resume-cursor-reads-wrong-part", File: "pkg/db/meta/table_user_channel_membership.go",
			Old:    "nextCursor = UserChannelMembershipCursor{ActivatedAt: next[1].I64, ChannelID: next[2].S, ChannelType: next[3].I64}",
			New:    "nextCursor = UserChannelMembershipCursor{ActivatedAt: next[3].I64, ChannelID: next[2].S, ChannelType: next[1].I64}",
			Expect: "C16/X1-resume-key/*ListUserChannelMembershipPage*round-trip*"},
		Mutant{Name: "x-resume-cursor-omits-component", File: "pkg/db/meta/table_user_channel_membership.go",
			Old:    "nextCursor = UserChannelMembershipCursor{ActivatedAt: next[1].I64, ChannelID: next[2].S, ChannelType: next[3].I64}",
			New:    "nextCursor = UserChannelMembershipCursor{ActivatedAt: next[1].I64, ChannelID: next[2].S, ChannelType: cursor.ChannelType}",
			Expect: "C16/X1-resume-key/*ListUserChannelMembershipPage*round-trip*"},
		Mutant{Name: "x-cmd-cursor-reads-prefix-part", File: "pkg/db/meta/table_user_cmd_channel_membership.go",
			Old:    "nextCursor = UserCMDChannelMembershipCursor{CommandChannelID: next[1].S, ChannelType: next[2].I64}\n\t} else if len(rows) > 0 {",
			New:    "nextCursor = UserCMDChannelMembershipCursor{CommandChannelID: next[0].S, ChannelType: next[2].I64}\n\t} else if len(rows) > 0 {",
			Expect: "C16/X1-resume-key/*ListUserCMDChannelMembershipPage*round-trip*"},
	)
}

// xc16Part is one component of a logical key as built in code.
type xc16Part struct {
	kind     int64     // KeyPartKind constant stored by the constructor
	valField string    // the KeyPart field the constructor fills (S, I64, U64, U8)
	enc      string    // constructor short name (for messages)
	src      ssa.Value // the encoded value, in the vocabulary of the outermost caller where possible
}

func (p xc16Part) String() string { return fmt.Sprintf("%s(%s)", p.enc[strings.LastIndex(p.enc, ".")+1:], Path(p.src)) }

func xc16Shape(parts []xc16Part) string {
	var s []string
	for _, p := range parts {
		s = append(s, p.String())
	}
	return "{" + strings.Join(s, ", ") + "}"
}

// xc16Ctor: fn is a KeyPart constructor `func(v T) KeyPart { return KeyPart{Kind: K, X: v} }`.
func xc16Ctor(fn *ssa.Function) (kind int64, valField string, ok bool) {
	if fn == nil || len(fn.Params) != 1 || len(fn.Blocks) != 1 || typeBaseName(fn.Signature.Results().At(0).Type()) != "KeyPart" {
		return 0, "", false
	}
	haveKind := false
	for _, in := range fn.Blocks[0].Instrs {
		st, isStore := in.(*ssa.Store)
		if !isStore {
			continue
		}
		fa, isField := st.Addr.(*ssa.FieldAddr)
		if !isField {
			continue
		}
		name := fieldName(fa.X.Type(), fa.Field)
		if name == "Kind" {
			k, isConst := st.Val.(*ssa.Const)
			if !isConst || k.Value == nil {
				return 0, "", false
			}
			kind, haveKind = k.Int64(), true
			continue
		}
		if stripConv(st.Val) != ssa.Value(fn.Params[0]) || valField != "" {
			return 0, "", false
		}
		valField = name
	}
	return kind, valField, haveKind && valField != ""
}

// xc16KeyShapes: the alternative non-nil key literals that can reach v (phi edges, key-builder helpers inlined).
func xc16KeyShapes(v ssa.Value, subst map[*ssa.Parameter]ssa.Value, depth int) (alts [][]xc16Part, ok bool) {
	if depth > 4 {
		return nil, false
	}
	v = stripConv(v)
	switch x := v.(type) {
	case *ssa.Const:
		return nil, x.Value == nil // nil key: no resume point
	case *ssa.Phi:
		for _, e := range x.Edges {
			a, ok := xc16KeyShapes(e, subst, depth+1)
			if !ok {
				return nil, false
			}
			alts = append(alts, a...)
		}
		return alts, true
	case *ssa.Slice:
		arr, isAlloc := x.X.(*ssa.Alloc)
		if !isAlloc || x.Low != nil || x.High != nil || arr.Referrers() == nil {
			return nil, false
		}
		at, isArr := arr.Type().Underlying().(*types.Pointer).Elem().Underlying().(*types.Array)
		if !isArr {
			return nil, false
		}
		parts := make([]xc16Part, at.Len())
		filled := make([]bool, at.Len())
		for _, r := range *arr.Referrers() {
			ia, isIdx := r.(*ssa.IndexAddr)
			if !isIdx {
				continue
			}
			k, isConst := ia.Index.(*ssa.Const)
			if !isConst || ia.Referrers() == nil {
				return nil, false
			}
			for _, rr := range *ia.Referrers() {
				st, isStore := rr.(*ssa.Store)
				if !isStore || st.Addr != ssa.Value(ia) {
					continue
				}
				call, isCall := st.Val.(*ssa.Call)
				if !isCall || len(call.Call.Args) != 1 {
					return nil, false
				}
				ctor, _ := call.Call.Value.(*ssa.Function)
				kind, vf, isCtor := xc16Ctor(ctor)
				i := int(k.Int64())
				if !isCtor || i < 0 || i >= len(parts) || filled[i] {
					return nil, false
				}
				src := stripConv(call.Call.Args[0])
				if p, isParam := src.(*ssa.Parameter); isParam && subst != nil {
					if a, has := subst[p]; has {
						src = a
					}
				}
				parts[i], filled[i] = xc16Part{kind, vf, funcShortName(ctor), src}, true
			}
		}
		for _, f := range filled {
			if !f {
				return nil, false
			}
		}
		return [][]xc16Part{parts}, true
	case *ssa.Call:
		callee, _ := x.Call.Value.(*ssa.Function)
		if callee == nil || len(callee.Blocks) == 0 || len(callee.Params) != len(x.Call.Args) {
			return nil, false
		}
		inner := map[*ssa.Parameter]ssa.Value{}
		for i, p := range callee.Params {
			a := stripConv(x.Call.Args[i])
			if ap, isParam := a.(*ssa.Parameter); isParam && subst != nil {
				if s, has := subst[ap]; has {
					a = s
				}
			}
			inner[p] = a
		}
		n := 0
		for _, b := range callee.Blocks {
			ret, isRet := b.Instrs[len(b.Instrs)-1].(*ssa.Return)
			if !isRet || len(ret.Results) != 1 {
				continue
			}
			n++
			a, ok := xc16KeyShapes(ret.Results[0], inner, depth+1)
			if !ok {
				return nil, false
			}
			alts = append(alts, a...)
		}
		return alts, n > 0
	}
	return nil, false
}

// xc16Layouts reads, from the TableSpec literal that initialises the package-level table `global`,
// the key layout (KeyPartKind constants) of the primary key and of every secondary index by ID.
func xc16Layouts(pk *packages.Package, global string) (primary []int64, byID map[int64][]int64, ok bool) {
	if pk == nil {
		return nil, nil, false
	}
	kv := func(lit *ast.CompositeLit, key string) ast.Expr {
		for _, e := range lit.Elts {
			if p, isKV := e.(*ast.KeyValueExpr); isKV {
				if id, isID := p.Key.(*ast.Ident); isID && id.Name == key {
					return p.Value
				}
			}
		}
		return nil
	}
	layout := func(e ast.Expr) ([]int64, bool) {
		lit, isLit := e.(*ast.CompositeLit)
		if !isLit {
			return nil, false
		}
		var out []int64
		for _, el := range lit.Elts {
			tv, has := pk.TypesInfo.Types[el]
			if !has || tv.Value == nil || tv.Value.Kind() != constant.Int {
				return nil, false
			}
			n, exact := constant.Int64Val(tv.Value)
			if !exact {
				return nil, false
			}
			out = append(out, n)
		}
		return out, len(out) > 0
	}
	for _, f := range pk.Syntax {
		for _, d := range f.Decls {
			gd, isGen := d.(*ast.GenDecl)
			if !isGen || gd.Tok != token.VAR {
				continue
			}
			for _, sp := range gd.Specs {
				vs := sp.(*ast.ValueSpec)
				for i, name := range vs.Names {
					if name.Name != global || i >= len(vs.Values) {
						continue
					}
					call, isCall := vs.Values[i].(*ast.CallExpr)
					if !isCall || len(call.Args) != 1 {
						return nil, nil, false
					}
					spec, isLit := call.Args[0].(*ast.CompositeLit)
					if !isLit {
						return nil, nil, false
					}
					byID = map[int64][]int64{}
					if p, isLit := kv(spec, "Primary").(*ast.CompositeLit); isLit {
						if l, ok := layout(kv(p, "Layout")); ok {
							primary = l
						}
					}
					if ix, isLit := kv(spec, "Indexes").(*ast.CompositeLit); isLit {
						for _, el := range ix.Elts {
							one, isLit := el.(*ast.CompositeLit)
							if !isLit {
								return nil, nil, false
							}
							idExpr := kv(one, "ID")
							tv, has := pk.TypesInfo.Types[idExpr]
							if idExpr == nil || !has || tv.Value == nil {
								return nil, nil, false
							}
							id, _ := constant.Int64Val(tv.Value)
							l, ok := layout(kv(one, "Layout"))
							if !ok {
								return nil, nil, false
							}
							byID[id] = l
						}
					}
					return primary, byID, primary != nil
				}
			}
		}
	}
	return nil, nil, false
}

// xc16ParamField: v reads field `field` of a struct-typed parameter (possibly spilled to a local).
func xc16ParamField(v ssa.Value) (param *ssa.Parameter, field string, ok bool) {
	v = stripConv(v)
	var base ssa.Value
	switch x := v.(type) {
	case *ssa.UnOp:
		fa, isField := x.X.(*ssa.FieldAddr)
		if x.Op != token.MUL || !isField {
			return nil, "", false
		}
		base, field = fa.X, fieldName(fa.X.Type(), fa.Field)
	case *ssa.Field:
		base, field = x.X, fieldName(x.X.Type(), x.Field)
	default:
		return nil, "", false
	}
	switch b := base.(type) {
	case *ssa.Parameter:
		return b, field, true
	case *ssa.Alloc:
		if p, isParam := spilledParam(b).(*ssa.Parameter); isParam {
			return p, field, true
		}
	case *ssa.UnOp:
		if a, isAlloc := b.X.(*ssa.Alloc); isAlloc && b.Op == token.MUL {
			if p, isParam := spilledParam(a).(*ssa.Parameter); isParam {
				return p, field, true
			}
		}
	}
	return nil, "", false
}

// xc16ResumeKeys checks every paged scan over the named table globals.
func xc16ResumeKeys(c *Ctx, rule string, tables []string, minSites int) {
	const pkgShort = "pkg/db/meta"
	pk := c.P.Pkgs[pkgShort]
	want := map[string]bool{}
	for _, t := range tables {
		want[t] = true
	}
	layouts := map[string]struct {
		primary []int64
		byID    map[int64][]int64
		ok      bool
	}{}
	sites := 0
	for _, fn := range c.P.AllFuncs {
		if !strings.HasPrefix(c.P.Name(fn), pkgShort+".") {
			continue
		}
		for _, b := range fn.Blocks {
			for _, in := range b.Instrs {
				call, isCall := in.(*ssa.Call)
				if !isCall {
					continue
				}
				callee, _ := call.Call.Value.(*ssa.Function)
				if callee == nil || !strings.HasPrefix(calleeName(&call.Call), pkgShort+".Table.") {
					continue
				}
				// locate the `after`, `prefix`, `indexID` parameters of the scan API by name
				afterIdx, prefixIdx, indexIdx := -1, -1, -1
				ps := callee.Signature.Params()
				for i := 0; i < ps.Len(); i++ {
					switch ps.At(i).Name() {
					case "after":
						afterIdx = i + 1
					case "prefix":
						prefixIdx = i + 1
					case "indexID":
						indexIdx = i + 1
					}
				}
				args := call.Call.Args
				if afterIdx < 0 || afterIdx >= len(args) || typeBaseName(args[afterIdx].Type()) != "KeyParts" {
					continue
				}
				ld, isLoad := args[0].(*ssa.UnOp)
				if !isLoad {
					continue // a generic Table method forwarding to another one
				}
				g, isGlobal := ld.X.(*ssa.Global)
				if !isGlobal || !want[g.Name()] {
					continue
				}
				if k, isConst := stripConv(args[afterIdx]).(*ssa.Const); isConst && k.Value == nil {
					continue // not a resumable scan
				}
				sites++
				c.FuncsAnalysed[c.P.Name(fn)] = true
				lay, seen := layouts[g.Name()]
				if !seen {
					lay.primary, lay.byID, lay.ok = xc16Layouts(pk, g.Name())
					layouts[g.Name()] = lay
				}
				xc16Site(c, rule, fn, call, g.Name(), lay.primary, lay.byID, lay.ok, afterIdx, prefixIdx, indexIdx)
			}
		}
	}
	if sites < minSites {
		c.add("vacuity", rule, "paged-scan-sites", Undecided, "", fmt.Sprintf("found %d paged scans over %v, hand-confirmed minimum is %d (scan API or table globals renamed? update the rule)", sites, tables, minSites))
	}
}

func xc16Site(c *Ctx, rule string, fn *ssa.Function, call *ssa.Call, table string, primary []int64, byID map[int64][]int64, layoutsOK bool, afterIdx, prefixIdx, indexIdx int) {
	fname := c.P.Name(fn)
	pos := c.P.InstrPos(call)
	api := calleeName(&call.Call)
	api = api[strings.LastIndex(api, ".")+1:]
	base := fmt.Sprintf("%s#%s(%s)", fname, api, table)
	args := call.Call.Args

	// ---- the declared layout of the scanned key
	var layout []int64
	which := "primary key"
	if !layoutsOK {
		c.add("shape", rule, base+"#full-key", Undecided, pos, "cannot read the key layouts from the TableSpec literal of "+table)
		return
	}
	if indexIdx >= 0 && indexIdx < len(args) {
		k, isConst := stripConv(args[indexIdx]).(*ssa.Const)
		if !isConst || k.Value == nil {
			c.add("shape", rule, base+"#full-key", Undecided, pos, "the index ID passed to the scan is not a constant")
			return
		}
		layout = byID[k.Int64()]
		which = fmt.Sprintf("index %d", k.Int64())
	} else {
		layout = primary
	}
	if len(layout) == 0 {
		c.add("shape", rule, base+"#full-key", Undecided, pos, "no Layout declared for "+which+" of "+table)
		return
	}

	// ---- (a) every non-nil resume key is a complete, correctly typed key
	alts, ok := xc16KeyShapes(args[afterIdx], nil, 0)
	if !ok || len(alts) == 0 {
		c.add("shape", rule, base+"#full-key", Undecided, pos, "cannot resolve the resume key to key literals (built by something other than a KeyParts literal of constructor calls / a key-builder helper): "+Path(args[afterIdx]))
		return
	}
	var bad []string
	for _, parts := range alts {
		if len(parts) != len(layout) {
			bad = append(bad, fmt.Sprintf("resume key %s has %d parts but %s of %s has %d: the scan restarts at PrefixEnd of the shorter key and skips every entry sharing it, not just the last emitted one", xc16Shape(parts), len(parts), which, table, len(layout)))
			continue
		}
		for i, p := range parts {
			if p.kind != layout[i] {
				bad = append(bad, fmt.Sprintf("resume key %s: part %d is built as kind %d but the layout of %s declares kind %d", xc16Shape(parts), i, p.kind, which, layout[i]))
			}
		}
	}
	if len(bad) > 0 {
		c.add("shape", rule, base+"#full-key", Violated, pos, strings.Join(bad, "; "))
	} else {
		c.add("shape", rule, base+"#full-key", Held, pos, fmt.Sprintf("%d resume key shape(s), each a complete %d-part key of %s with the declared part kinds: %s", len(alts), len(layout), which, xc16Shape(alts[0])))
	}

	// ---- (b) cursor <-> key round trip
	nPrefix := 0
	if prefixIdx >= 0 && prefixIdx < len(args) {
		pa, ok := xc16KeyShapes(args[prefixIdx], nil, 0)
		if !ok || len(pa) != 1 {
			c.add("shape", rule, base+"#round-trip", Undecided, pos, "cannot resolve the scan prefix to one key literal")
			return
		}
		nPrefix = len(pa[0])
	}
	// stores  X.F = next[k].<acc>  where next is result #1 of this scan
	type fromNext struct {
		field, acc string
		owner      string
		at         string
	}
	byPos := map[int][]fromNext{}
	var irregular []string
	if call.Referrers() != nil {
		for _, r := range *call.Referrers() {
			ex, isEx := r.(*ssa.Extract)
			if !isEx || typeBaseName(ex.Type()) != "KeyParts" || ex.Referrers() == nil {
				continue
			}
			for _, rr := range *ex.Referrers() {
				ia, isIdx := rr.(*ssa.IndexAddr)
				if !isIdx || ia.Referrers() == nil {
					continue
				}
				k, isConst := ia.Index.(*ssa.Const)
				for _, r3 := range *ia.Referrers() {
					fa, isField := r3.(*ssa.FieldAddr)
					if !isField || fa.Referrers() == nil {
						continue
					}
					acc := fieldName(fa.X.Type(), fa.Field)
					for _, r4 := range *fa.Referrers() {
						ld, isLoad := r4.(*ssa.UnOp)
						if !isLoad || ld.Referrers() == nil {
							continue
						}
						for _, r5 := range *ld.Referrers() {
							st, isStore := r5.(*ssa.Store)
							if !isStore || stripConv(st.Val) != ssa.Value(ld) {
								continue
							}
							dst, isDst := st.Addr.(*ssa.FieldAddr)
							if !isDst || !isConst {
								irregular = append(irregular, "next part used at "+c.P.InstrPos(st)+" is not stored into a cursor field from a constant position")
								continue
							}
							byPos[int(k.Int64())] = append(byPos[int(k.Int64())], fromNext{fieldName(dst.X.Type(), dst.Field), acc, ownerTypeName(dst.X.Type()), c.P.InstrPos(st)})
						}
					}
				}
			}
		}
	}
	if len(byPos) == 0 {
		c.add("shape", rule, base+"#round-trip", Undecided, pos, "the returned cursor is not rebuilt field by field from the scan's next key: cannot relate cursor fields to key positions")
		return
	}
	bad = append([]string(nil), irregular...)
	var untraced []string
	for _, parts := range alts {
		if len(parts) != len(layout) {
			continue // already reported by (a)
		}
		for i := nPrefix; i < len(parts); i++ {
			p, field, isField := xc16ParamField(parts[i].src)
			if !isField {
				untraced = append(untraced, fmt.Sprintf("resume key part %d (%s) cannot be traced to a field of a cursor parameter", i, parts[i]))
				continue
			}
			got := byPos[i]
			if len(got) == 0 {
				bad = append(bad, fmt.Sprintf("key position %d (%s) is resumed from the cursor but the returned cursor takes nothing from next[%d]: the component is not carried across pages", i, parts[i], i))
				continue
			}
			for _, g := range got {
				if g.field != field || g.owner != typeBaseName(p.Type()) {
					bad = append(bad, fmt.Sprintf("next[%d] is stored into %s.%s (at %s) but resume key part %d is built from %s.%s: the cursor does not round-trip into the same key position", i, g.owner, g.field, g.at, i, p.Name(), field))
				}
				if g.acc != parts[i].valField {
					bad = append(bad, fmt.Sprintf("next[%d] is read through .%s (at %s) but that part is a %s filling .%s", i, g.acc, g.at, parts[i].enc, parts[i].valField))
				}
			}
		}
	}
	var extra []int
	for k := range byPos {
		if k < nPrefix || k >= len(layout) {
			extra = append(extra, k)
		}
	}
	sort.Ints(extra)
	for _, k := range extra {
		bad = append(bad, fmt.Sprintf("the returned cursor reads next[%d] (at %s), which is outside the non-prefix positions %d..%d of the key", k, byPos[k][0].at, nPrefix, len(layout)-1))
	}
	if len(bad) > 0 {
		c.add("shape", rule, base+"#round-trip", Violated, pos, strings.Join(dedup(bad), "; "))
	} else if len(untraced) > 0 {
		c.add("shape", rule, base+"#round-trip", Undecided, pos, strings.Join(dedup(untraced), "; "))
	} else {
		c.add("shape", rule, base+"#round-trip", Held, pos, fmt.Sprintf("cursor fields are read from next[%d..%d] at the positions where the resume key encodes the same cursor fields", nPrefix, len(layout)-1))
	}
}
