package main

import (
	"fmt"
	"go/constant"
	"go/token"
	"go/types"
	"sort"
	"strings"

	"golang.org/x/tools/go/ssa"
)

// Extension rules for C02 found by seeded change C02-b.
//
// Clause: "the committed mark that travels with a proposal to another replica (ReplicateRequest.Committed →
// Mutation.Committed → AppendLeaderRequest.Committed, which the store persists as the follower's HW) is bounded
// above by a committed watermark". A log-end value (LEO, LastOffset, proposal.last) alone is never such a bound:
// everything up to the leader's LEO is durable locally but not decided by a quorum.
//
//	X1-committed-mark-source
//	  For every store to one of the sink fields the stored value v has a committed-class upper bound ub(v):
//	    ub(load of a committed-class field)            (ReplicaState.Committed, durableProposal.committed and the sinks)
//	    ub(min(a, b, …))      if ub of SOME operand    (builtin min, or a function verified to be a two-operand minimum)
//	    ub(max(a, b, …))      if ub of EVERY operand
//	    ub(φ(a | b | …))      if ub of EVERY incoming value (also: every store into an address-taken local)
//	    ub(0)
//	  Decoders of the wire form are enumerated exceptions (the value was bounded by the sender).
//	  The classification is by resolved struct field and resolved callee, never by the name of a local.
//	  Every user function accepted as "min" is itself verified (returns the smaller parameter on both branches).
func init() {
	const rt = "pkg/channel/replication/runtime.go"
	extend("C02", nil, func(c *Ctx) {
		const r = "pkg/channel/replication."
		xc02CommittedMarkSource(c, "X1-committed-mark-source",
			[]string{r + "ReplicateRequest.Committed", r + "Mutation.Committed", "pkg/channel/store.AppendLeaderRequest.Committed"},
			[]string{r + "ReplicaState.Committed", r + "durableProposal.committed"},
			map[string]string{
				r + "exchangeCursor.*": "decode of the wire form: the value was bounded by the sender, whose store sites are checked",
			})
		c.Min("X1-committed-mark-source", 5)
	},
		Mutant{Name: "x-repair-advertises-leo-as-committed", File: rt,
			Old: "Committed: minUint64(state.Committed, proposal.Manifest.LastOffset),", New: "Committed: minUint64(state.LEO, proposal.Manifest.LastOffset),",
			Expect: "C02/X1-committed-mark-source/*repairFromFrontier*"},
		Mutant{Name: "x-repair-commits-whole-proposal", File: rt,
			Old: "Committed: minUint64(state.Committed, proposal.Manifest.LastOffset),", New: "Committed: proposal.Manifest.LastOffset,",
			Expect: "C02/X1-committed-mark-source/*repairFromFrontier*"},
		Mutant{Name: "x-min-helper-returns-larger", File: rt,
			Old: "func minUint64(left, right uint64) uint64 {\n\tif left < right {", New: "func minUint64(left, right uint64) uint64 {\n\tif left > right {",
			Expect: "C02/X1-committed-mark-source/*"},
		Mutant{Name: "x-replicate-sends-proposal-end-as-committed", File: "pkg/channel/replication/durability_dispatcher.go",
			Old: "Committed:                 proposal.committed,", New: "Committed:                 proposal.last,",
			Expect: "C02/X1-committed-mark-source/*submitReplicaWithMode*"},
		Mutant{Name: "x-follower-persists-proposal-end-as-committed", File: "pkg/channel/replication/exchange_server.go",
			Old: "Records: request.Records, Committed: request.Committed,", New: "Records: request.Records, Committed: request.Manifest.LastOffset,",
			Expect: "C02/X1-committed-mark-source/*"},
	)
}

type xc02Bound struct {
	c       *Ctx
	class   map[*types.Var]string // committed-class fields → qualified name
	minFns  map[*ssa.Function]bool
	minSeen map[*ssa.Function]string // verdict text per user function consulted as a minimum
}

// xc02IsMinFunc: fn(a, b T) T returns the smaller parameter: either `return min(a, b)` or one comparison of the
// two parameters whose branches each return the parameter that the branch proved to be the smaller one.
func xc02IsMinFunc(fn *ssa.Function) (bool, string) {
	if fn == nil || len(fn.Blocks) == 0 || len(fn.Params) != 2 || fn.Signature.Results().Len() != 1 {
		return false, "not a two-parameter, one-result function with a body"
	}
	a, b := ssa.Value(fn.Params[0]), ssa.Value(fn.Params[1])
	if !types.Identical(a.Type(), b.Type()) {
		return false, "parameters of different types"
	}
	isParam := func(v ssa.Value) ssa.Value {
		v = stripConv(v)
		if v == a || v == b {
			return v
		}
		return nil
	}
	retOf := func(blk *ssa.BasicBlock) ssa.Value {
		// a block that only returns one value (debug-free build: the return is the only instruction)
		if len(blk.Instrs) != 1 {
			return nil
		}
		ret, ok := blk.Instrs[0].(*ssa.Return)
		if !ok || len(ret.Results) != 1 {
			return nil
		}
		return ret.Results[0]
	}
	if len(fn.Blocks) == 1 {
		if len(fn.Blocks[0].Instrs) == 2 {
			if call, ok := fn.Blocks[0].Instrs[0].(*ssa.Call); ok {
				if bi, ok := call.Call.Value.(*ssa.Builtin); ok && bi.Name() == "min" && len(call.Call.Args) == 2 &&
					isParam(call.Call.Args[0]) != nil && isParam(call.Call.Args[1]) != nil && isParam(call.Call.Args[0]) != isParam(call.Call.Args[1]) {
					if ret, ok := fn.Blocks[0].Instrs[1].(*ssa.Return); ok && len(ret.Results) == 1 && ret.Results[0] == ssa.Value(call) {
						return true, "returns builtin min of its two parameters"
					}
				}
			}
		}
		return false, "single block that is not `return min(a, b)`"
	}
	if len(fn.Blocks) != 3 {
		return false, fmt.Sprintf("%d basic blocks (expected one comparison and two returns)", len(fn.Blocks))
	}
	entry := fn.Blocks[0]
	if len(entry.Instrs) != 2 {
		return false, "entry block does more than compare"
	}
	cmp, ok := entry.Instrs[0].(*ssa.BinOp)
	iff, ok2 := entry.Instrs[1].(*ssa.If)
	if !ok || !ok2 || iff.Cond != ssa.Value(cmp) {
		return false, "entry block is not `if a <op> b`"
	}
	x, y := isParam(cmp.X), isParam(cmp.Y)
	if x == nil || y == nil || x == y {
		return false, "comparison is not between the two parameters"
	}
	var smallerIfTrue, smallerIfFalse ssa.Value
	switch cmp.Op {
	case token.LSS, token.LEQ: // true: x <= y, false: y <= x
		smallerIfTrue, smallerIfFalse = x, y
	case token.GTR, token.GEQ: // true: y <= x, false: x <= y
		smallerIfTrue, smallerIfFalse = y, x
	default:
		return false, "comparison operator " + cmp.Op.String() + " orders nothing"
	}
	rt, rf := retOf(entry.Succs[0]), retOf(entry.Succs[1])
	if rt == nil || rf == nil {
		return false, "a branch does more than return"
	}
	if isParam(rt) != smallerIfTrue || isParam(rf) != smallerIfFalse {
		return false, fmt.Sprintf("on `%s %s %s` it returns %s, otherwise %s: that is not the smaller operand on both branches", x.Name(), cmp.Op, y.Name(), Path(rt), Path(rf))
	}
	return true, fmt.Sprintf("`if %s %s %s` returns the smaller parameter on both branches", x.Name(), cmp.Op, y.Name())
}

func (x *xc02Bound) fieldClass(t types.Type, i int) (string, bool) {
	fv := fieldVar(t, i)
	if fv == nil {
		return "", false
	}
	q, ok := x.class[fv]
	return q, ok
}

// ub: does v have a committed-class upper bound? Returns the witness (or the reason it has none).
func (x *xc02Bound) ub(v ssa.Value, seen map[ssa.Value]bool, depth int) (bool, string) {
	v = stripConv(v)
	if v == nil {
		return false, "no value"
	}
	if depth > 16 {
		return false, "expression too deep: " + Path(v)
	}
	if seen[v] {
		return true, "↺" // coinductive: a cycle through φ adds no new source
	}
	switch t := v.(type) {
	case *ssa.Const:
		if t.Value != nil && t.Value.Kind() == constant.Int && constant.Sign(t.Value) == 0 {
			return true, "0"
		}
		return false, "constant " + constString(t) + " is not a committed watermark"
	case *ssa.Field:
		if q, ok := x.fieldClass(t.X.Type(), t.Field); ok {
			return true, q
		}
		return false, "field " + ownerTypeName(t.X.Type()) + "." + fieldName(t.X.Type(), t.Field) + " is not a committed watermark"
	case *ssa.UnOp:
		if t.Op != token.MUL {
			return false, "operator " + t.Op.String()
		}
		switch a := t.X.(type) {
		case *ssa.FieldAddr:
			if q, ok := x.fieldClass(a.X.Type(), a.Field); ok {
				return true, q
			}
			return false, "field " + ownerTypeName(a.X.Type()) + "." + fieldName(a.X.Type(), a.Field) + " is not a committed watermark"
		case *ssa.Alloc:
			// an address-taken scalar local: every value ever stored into it must be bounded
			if a.Referrers() == nil {
				return false, "local without referrers"
			}
			seen[v] = true
			n := 0
			var wit []string
			for _, ref := range *a.Referrers() {
				switch rr := ref.(type) {
				case *ssa.Store:
					if rr.Addr != ssa.Value(a) {
						return false, "address of the local escapes"
					}
					ok, why := x.ub(rr.Val, seen, depth+1)
					if !ok {
						return false, why
					}
					n++
					wit = append(wit, why)
				case *ssa.UnOp, *ssa.DebugRef:
				default:
					return false, "address of the local escapes"
				}
			}
			if n == 0 {
				return false, "local never assigned"
			}
			return true, "var{" + strings.Join(dedup(wit), " | ") + "}"
		}
		return false, "load of " + Path(t.X)
	case *ssa.Phi:
		seen[v] = true
		var wit []string
		for i, e := range t.Edges {
			ok, why := x.ub(e, seen, depth+1)
			if !ok {
				// an inlined minimum: `m := c; if e < m { m = e }` — the edge that carries e is behind e < c
				if gok, gwhy := x.edgeBounded(t, i, e, seen, depth+1); gok {
					wit = append(wit, gwhy)
					continue
				}
				return false, "one branch yields " + Path(e) + " (" + why + ")"
			}
			wit = append(wit, why)
		}
		return true, "φ{" + strings.Join(dedup(wit), " | ") + "}"
	case *ssa.Call:
		name := calleeName(&t.Call)
		args := callArgs(&t.Call)
		if bi, ok := t.Call.Value.(*ssa.Builtin); ok {
			switch bi.Name() {
			case "min":
				return x.any(name, args, seen, depth)
			case "max":
				return x.all(name, args, seen, depth)
			}
			return false, "builtin " + name
		}
		callee := t.Call.StaticCallee()
		if callee == nil {
			return false, "dynamic call " + name
		}
		verdict, known := x.minSeen[callee]
		if !known {
			var ok bool
			ok, verdict = xc02IsMinFunc(callee)
			x.minFns[callee] = ok
			x.minSeen[callee] = verdict
		}
		if !x.minFns[callee] {
			return false, "result of " + name + ", which is not a verified minimum (" + verdict + ")"
		}
		return x.any(name, args, seen, depth)
	}
	return false, Path(v) + " is not derived from a committed watermark"
}

// edgeBounded: the i-th incoming value e of φ arrives only over a CFG edge that established e < w or e <= w for
// a bounded w (the comparison sits at the end of the predecessor or of its unique-predecessor chain).
// Operands are identified by their rendering, the analyser's convention for "the same expression".
func (x *xc02Bound) edgeBounded(phi *ssa.Phi, i int, e ssa.Value, seen map[ssa.Value]bool, depth int) (bool, string) {
	to := phi.Block()
	if i >= len(to.Preds) {
		return false, ""
	}
	from := to.Preds[i]
	want := Path(e)
	for steps := 0; steps < 8; steps++ {
		if n := len(from.Instrs); n > 0 {
			if iff, ok := from.Instrs[n-1].(*ssa.If); ok && from.Succs[0] != from.Succs[1] {
				if cmp, ok := iff.Cond.(*ssa.BinOp); ok {
					truth := from.Succs[0] == to
					var small, other ssa.Value // the edge proves small <= other
					switch {
					case (cmp.Op == token.LSS || cmp.Op == token.LEQ) && truth, (cmp.Op == token.GTR || cmp.Op == token.GEQ) && !truth:
						small, other = cmp.X, cmp.Y
					case (cmp.Op == token.GTR || cmp.Op == token.GEQ) && truth, (cmp.Op == token.LSS || cmp.Op == token.LEQ) && !truth:
						small, other = cmp.Y, cmp.X
					}
					if small != nil && Path(small) == want {
						if ok, why := x.ub(other, seen, depth+1); ok {
							return true, fmt.Sprintf("%s behind %s ≤ %s", want, want, why)
						}
					}
				}
			}
		}
		if len(from.Preds) != 1 {
			break
		}
		to, from = from, from.Preds[0]
	}
	return false, ""
}

func (x *xc02Bound) any(name string, args []ssa.Value, seen map[ssa.Value]bool, depth int) (bool, string) {
	var why []string
	for _, a := range args {
		ok, w := x.ub(a, seen, depth+1)
		if ok {
			return true, name + "(… " + w + " …)"
		}
		why = append(why, Path(a)+": "+w)
	}
	return false, "no operand of " + name + " is a committed watermark [" + strings.Join(why, "; ") + "]"
}

func (x *xc02Bound) all(name string, args []ssa.Value, seen map[ssa.Value]bool, depth int) (bool, string) {
	var wit []string
	for _, a := range args {
		ok, w := x.ub(a, seen, depth+1)
		if !ok {
			return false, "operand " + Path(a) + " of " + name + " is not bounded (" + w + ")"
		}
		wit = append(wit, w)
	}
	return len(args) > 0, name + "(" + strings.Join(wit, ", ") + ")"
}

func xc02CommittedMarkSource(c *Ctx, rule string, sinks, sources []string, exceptions map[string]string) {
	x := &xc02Bound{c: c, class: map[*types.Var]string{}, minFns: map[*ssa.Function]bool{}, minSeen: map[*ssa.Function]string{}}
	for _, q := range append(append([]string{}, sinks...), sources...) {
		if fv := c.Field(q); fv != nil {
			x.class[fv] = q
		}
	}
	for _, q := range sinks {
		fv := c.lookupField(q)
		if fv == nil {
			continue // c.Field above already recorded the missing anchor
		}
		type agg struct {
			pos  string
			good []string
			bad  []string
			exc  string
		}
		per := map[string]*agg{}
		for _, s := range c.fieldStores(fv) {
			name := c.P.Name(s.fn)
			c.FuncsAnalysed[name] = true
			a := per[name]
			if a == nil {
				a = &agg{pos: c.P.InstrPos(s.in)}
				per[name] = a
			}
			if reason, ok := matchReset(exceptions, name); ok {
				a.exc = reason
				continue
			}
			if ok, why := x.ub(s.val, map[ssa.Value]bool{}, 0); ok {
				a.good = append(a.good, Path(s.val)+" ≤ "+why)
			} else {
				a.bad = append(a.bad, fmt.Sprintf("%s = %s at %s: %s", Path(s.addr), Path(s.val), c.P.InstrPos(s.in), why))
				a.pos = c.P.InstrPos(s.in)
			}
		}
		if len(per) == 0 {
			c.add("flow", rule, "stores:"+q, Undecided, "", "no store to the field found in the loaded packages (vacuous; the field moved?)")
			continue
		}
		var names []string
		for n := range per {
			names = append(names, n)
		}
		sort.Strings(names)
		for _, n := range names {
			a := per[n]
			construct := q + "@" + n
			switch {
			case len(a.bad) > 0:
				c.add("flow", rule, construct, Violated, a.pos, "the committed mark handed on with a proposal is not bounded by a committed watermark (a log-end value is durable, not decided; the receiver would persist it as its HW): "+strings.Join(a.bad, "; "))
			case a.exc != "":
				c.add("flow", rule, construct, Exception, a.pos, "enumerated exception: "+a.exc)
			default:
				c.add("flow", rule, construct, Held, a.pos, strings.Join(dedup(a.good), "; "))
			}
		}
	}
	var fns []*ssa.Function
	for fn := range x.minSeen {
		fns = append(fns, fn)
	}
	sort.Slice(fns, func(i, j int) bool { return c.P.Name(fns[i]) < c.P.Name(fns[j]) })
	for _, fn := range fns {
		if !x.minFns[fn] {
			continue // a call that is not a minimum already failed the store site that consulted it
		}
		st := Held
		c.add("flow", rule, "minimum:"+c.P.Name(fn), st, c.P.Pos(fn.Pos()), "function whose result caps a committed mark: "+x.minSeen[fn])
	}
}
