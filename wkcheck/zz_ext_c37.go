package main

import (
	"fmt"
	"go/types"
	"sort"
	"strings"

	"golang.org/x/tools/go/ssa"
)

// C37 extension: "close waits for admitted work" — nobody stops serving a queue that may still
// hold accepted items.
//
// Two defects of the unmodified tree were not seen by the base table (props_c37.go):
//
//	(1) BoundedBatchPool.dispatch returned after a FAILED executor hand-off without the cancel
//	    sweep. In CancelAcceptedOnClose mode the hand-off fails on every graceful Close that
//	    finds the dispatcher holding a batch (submitToExecutor / retryExecutor cancel the held
//	    batch and return false), so the items still in p.queue were neither run nor cancelled
//	    and Close returned nil. The base rule R4-close accepted "!submitToExecutor(*)" as a
//	    sufficient reason to leave the loop.
//	(2) ShardedMailbox.finishShardDrain retired a shard (wg.Done) whose queue was non-empty
//	    when the shard had been closed meanwhile (item admitted in the tail window of a drain,
//	    Close before finishShardDrain). The base rule R2-finish REQUIRED exactly that: it
//	    demanded "!shard.closed" in front of the re-arm and allowed "shard.closed" in front of
//	    wg.Done. That clause is superseded here (see xc37Supersede).
//
// General clauses added (each applied to every sibling of the package it makes sense for):
//
//	X1-abandon  A dispatcher loop leaves the queue after a failed executor hand-off only if
//	            (a) it then runs the close-time sweep (cancelQueued / drainQueue), or (b) the
//	            failure cannot be a cancellation of accepted work: the pool has no cancel mode
//	            (BoundedPool), or the path establishes that cancel mode is off
//	            (!shouldCancelAccepted / !cfg.CancelAcceptedOnClose). The drain-mode sweep
//	            drainQueue of the batch pool is reachable only with cancel mode off.
//	X1-giveup   The hand-off reports failure (false) only for the reasons (b) relies on: the
//	            executor is closed (ErrPoolClosed), the runtime context is done, or — batch
//	            pool only — accepted work is being cancelled (shouldCancelAccepted, or the stop
//	            arm of the cancel-mode retry select). Nothing else may make a dispatcher quit.
//	X2-retire   Whoever retires a queue owner does so only after observing the queue empty at a
//	            point after which nothing can be admitted, unless the runtime is gone:
//	            finishShardDrain reaches wg.Done only behind len(queue)<=0 or a dead runtime
//	            (NOT behind "closed": closing must not strand admitted items); the close-time
//	            sweeps (BoundedWorkerQueue.drain, *.drainQueue, cancelQueued) return only
//	            through the default arm of their non-blocking receive (queue observed empty)
//	            or after a failed hand-off (then X1-giveup applies).
//
// NOT decided: liveness of the re-arm (finishShardDrain ↔ invokeShard cannot ping-pong forever
// because the re-arm is bounded by the runtime context, checked only as "some runtime-dead test
// guards wg.Done"); the configuration CancelRunningOnClose without CancelAcceptedOnClose, where
// the runtime context is cancelled at the START of a graceful Close and the "runtime is gone"
// excuse of X1-giveup therefore drops held/queued items silently (no production user sets this
// combination; it is a property of the option set, not of a code path, see NOTES).
func init() {
	const wq = "pkg/workqueue/"
	const finishOld = "\tneedsSchedule := len(shard.queue) > 0 && shard.parent.ctx.Err() == nil\n"
	extend("C37", nil, xc37,
		// ---- X1-abandon (all Old texts exist in the REPAIRED tree) -------------------------
		// the defect itself: failed hand-off, no sweep
		Mutant{Name: "x-batch-dispatch-failed-handoff-no-sweep", File: wq + "bounded_batch_pool.go",
			Old: "\t\t\tif !p.submitToExecutor(batch) {\n\t\t\t\tif p.shouldCancelAccepted() {\n\t\t\t\t\t// Close canceled the held batch; cancel what is still queued as well.\n\t\t\t\t\tp.cancelQueued()\n\t\t\t\t}\n\t\t\t\treturn\n\t\t\t}",
			New: "\t\t\tif !p.submitToExecutor(batch) {\n\t\t\t\treturn\n\t\t\t}", Expect: "C37/X1-abandon.BoundedBatchPool*"},
		// sweep on the wrong polarity: only when NOT cancelling
		Mutant{Name: "x-batch-dispatch-sweep-wrong-polarity", File: wq + "bounded_batch_pool.go",
			Old: "\t\t\tif !p.submitToExecutor(batch) {\n\t\t\t\tif p.shouldCancelAccepted() {",
			New: "\t\t\tif !p.submitToExecutor(batch) {\n\t\t\t\tif !p.shouldCancelAccepted() {", Expect: "C37/X1-abandon.BoundedBatchPool*"},
		// stop arm runs the drain-mode sweep in cancel mode too (its hand-off failure has no cancel sweep)
		Mutant{Name: "x-batch-stop-arm-drains-in-cancel-mode", File: wq + "bounded_batch_pool.go",
			Old: "\t\tcase <-p.stop:\n\t\t\tif p.cfg.CancelAcceptedOnClose {\n\t\t\t\tp.cancelQueued()\n\t\t\t\treturn\n\t\t\t}\n\t\t\tp.drainQueue()",
			New: "\t\tcase <-p.stop:\n\t\t\tif p.cfg.CancelAcceptedOnClose && len(p.queue) == 0 {\n\t\t\t\tp.cancelQueued()\n\t\t\t\treturn\n\t\t\t}\n\t\t\tp.drainQueue()", Expect: "C37/X1-abandon.BoundedBatchPool*"},
		// behaviour-preserving: test the configuration flag instead of the helper
		Mutant{Name: "x-batch-dispatch-sweep-tests-config-flag", File: wq + "bounded_batch_pool.go",
			Old: "\t\t\tif !p.submitToExecutor(batch) {\n\t\t\t\tif p.shouldCancelAccepted() {",
			New: "\t\t\tif !p.submitToExecutor(batch) {\n\t\t\t\tif p.cfg.CancelAcceptedOnClose {", Expect: "!silent"},
		// behaviour-preserving: the cancel-mode test written out instead of calling the helper
		Mutant{Name: "x-batch-dispatch-sweep-inlined-mode-test", File: wq + "bounded_batch_pool.go",
			Old: "\t\t\tif !p.submitToExecutor(batch) {\n\t\t\t\tif p.shouldCancelAccepted() {",
			New: "\t\t\tif !p.submitToExecutor(batch) {\n\t\t\t\tif p.cfg.CancelAcceptedOnClose && p.closed.Load() {", Expect: "!silent"},

		// ---- X1-giveup ---------------------------------------------------------------------
		// an unknown executor error makes the dispatcher quit although the runtime is alive
		Mutant{Name: "x-pool-handoff-quits-on-unknown-error", File: wq + "bounded_pool.go",
			Old: "\t\tif !errors.Is(err, ants.ErrPoolOverload) {\n\t\t\tp.releaseSlots(1)\n\t\t\tp.observeDepth()\n\t\t\treturn true\n\t\t}",
			New: "\t\tif !errors.Is(err, ants.ErrPoolOverload) {\n\t\t\tp.releaseSlots(1)\n\t\t\tp.observeDepth()\n\t\t\treturn false\n\t\t}", Expect: "C37/X1-giveup.BoundedPool*"},
		// overload retry also gives up when Close merely started (stop), dropping the task in drain mode
		Mutant{Name: "x-pool-handoff-quits-on-stop", File: wq + "bounded_pool.go",
			Old: "\t\tcase <-timer.C:\n\t\tcase <-p.ctx.Done():\n\t\t\ttimer.Stop()\n\t\t\tp.releaseSlots(1)\n\t\t\tp.observeDepth()\n\t\t\treturn false\n",
			New: "\t\tcase <-timer.C:\n\t\tcase <-p.stop:\n\t\t\ttimer.Stop()\n\t\t\tp.releaseSlots(1)\n\t\t\tp.observeDepth()\n\t\t\treturn false\n", Expect: "C37/X1-giveup.BoundedPool*"},
		// drain-mode retry of the batch pool gives up on stop
		Mutant{Name: "x-batch-retry-drain-mode-quits-on-stop", File: wq + "bounded_batch_pool.go",
			Old: "\tselect {\n\tcase <-timer.C:\n\t\treturn true\n\tcase <-p.ctx.Done():\n\t\tp.releaseSlots(len(batch))\n\t\tp.observeDepth()\n\t\treturn false\n\t}",
			New: "\tselect {\n\tcase <-timer.C:\n\t\treturn true\n\tcase <-p.stop:\n\t\tp.releaseSlots(len(batch))\n\t\tp.observeDepth()\n\t\treturn false\n\t}", Expect: "C37/X1-giveup.BoundedBatchPool*"},
		// batch hand-off quits on an unknown executor error
		Mutant{Name: "x-batch-handoff-quits-on-unknown-error", File: wq + "bounded_batch_pool.go",
			Old: "\t\tif !errors.Is(err, ants.ErrPoolOverload) {\n\t\t\tp.releaseSlots(len(batch))\n\t\t\tp.observeDepth()\n\t\t\treturn true\n\t\t}",
			New: "\t\tif !errors.Is(err, ants.ErrPoolOverload) {\n\t\t\tp.releaseSlots(len(batch))\n\t\t\tp.observeDepth()\n\t\t\treturn false\n\t\t}", Expect: "C37/X1-giveup.BoundedBatchPool*"},

		// ---- X2-retire ---------------------------------------------------------------------
		// the defect itself: a closed shard is retired with a non-empty queue
		Mutant{Name: "x-mailbox-finish-retires-closed-shard-with-items", File: wq + "sharded_mailbox.go",
			Old: finishOld,
			New: "\tneedsSchedule := len(shard.queue) > 0 && !shard.closed && !shard.parent.closed.Load()\n", Expect: "C37/X2-retire.Mailbox*"},
		// the queue is not looked at any more
		Mutant{Name: "x-mailbox-finish-never-rearms", File: wq + "sharded_mailbox.go",
			Old: finishOld,
			New: "\tneedsSchedule := false && len(shard.queue) > 0\n", Expect: "C37/X2-retire.Mailbox*"},
		// behaviour-preserving: the runtime test is spelled with the pool state as well
		Mutant{Name: "x-mailbox-finish-also-tests-pool-closed", File: wq + "sharded_mailbox.go",
			Old: finishOld,
			New: "\tneedsSchedule := len(shard.queue) > 0 && shard.parent.ctx.Err() == nil && !shard.parent.pool.IsClosed()\n", Expect: "!silent"},
		// worker-queue sweep handles one item and leaves (return instead of continuing the loop)
		Mutant{Name: "x-wq-drain-returns-with-items-queued", File: wq + "bounded_worker_queue.go",
			Old: "func (q *BoundedWorkerQueue[T]) drain() {\n\tfor {\n\t\tselect {\n\t\tcase item := <-q.queue:\n\t\t\tq.releaseSlot()\n\t\t\tq.runItem(item)\n",
			New: "func (q *BoundedWorkerQueue[T]) drain() {\n\tfor {\n\t\tselect {\n\t\tcase item := <-q.queue:\n\t\t\tq.releaseSlot()\n\t\t\tq.runItem(item)\n\t\t\treturn\n", Expect: "C37/X2-retire.WorkerQueue*"},
		// cancel sweep stops after the first queued item
		Mutant{Name: "x-batch-cancel-sweep-stops-early", File: wq + "bounded_batch_pool.go",
			Old: "\t\tcase task := <-p.queue:\n\t\t\tp.cancelTasks([]boundedBatchPoolTask[T]{task})\n\t\tdefault:",
			New: "\t\tcase task := <-p.queue:\n\t\t\tp.cancelTasks([]boundedBatchPoolTask[T]{task})\n\t\t\treturn\n\t\tdefault:", Expect: "C37/X2-retire.BoundedBatchPool*"},
		// drain-mode sweep of the plain pool leaves after the first task it handed off (inverted test)
		Mutant{Name: "x-pool-drain-sweep-stops-after-first", File: wq + "bounded_pool.go",
			Old: "\t\tcase task := <-p.queue:\n\t\t\tif !p.submitToExecutor(task) {\n\t\t\t\treturn\n\t\t\t}\n\t\tdefault:",
			New: "\t\tcase task := <-p.queue:\n\t\t\tif p.submitToExecutor(task) {\n\t\t\t\treturn\n\t\t\t}\n\t\tdefault:", Expect: "C37/X2-retire.BoundedPool*"},
	)
}

// xc37RebaseMutant rewrites the Old/New text of one stored mutant of a property after a repair
// changed the source line it edits (stored mutants are textual; the rule they test is unchanged).
func xc37RebaseMutant(prop, name, from, to string) {
	spec := registry[prop]
	if spec == nil {
		return
	}
	for i := range spec.Mutants {
		if spec.Mutants[i].Name == name {
			spec.Mutants[i].Old = strings.ReplaceAll(spec.Mutants[i].Old, from, to)
			spec.Mutants[i].New = strings.ReplaceAll(spec.Mutants[i].New, from, to)
		}
	}
}

func xc37(c *Ctx) {
	const wq = "pkg/workqueue"
	xc37Mailbox(c, wq)
	xc37WorkerQueue(c, wq)
	xc37Pool(c, wq, "BoundedPool", false)
	xc37Pool(c, wq, "BoundedBatchPool", true)
	c.Min("X1-abandon", 5)
	c.Min("X1-giveup", 3)
	c.Min("X2-retire", 5)
}

// xc37Supersede withdraws the three base obligations of R2-finish that state the defect as a
// requirement: "scheduled=true only behind !shard.closed", "… only behind !parent.closed" and
// "wg.Done behind … || shard.closed || parent.closed". A shard that was closed while an admitted
// item sits in its queue MUST be re-armed (Close is still waiting on the wait-group and the ants
// pool is released only after that wait), so these clauses cannot be kept. Their replacement is
// X2-retire.Mailbox. The obligations stay in the report as exceptions with the reason.
func xc37Supersede(c *Ctx) {
	const finish = "pkg/workqueue.ShardedMailbox.finishShardDrain#"
	for i := range c.Obligs {
		o := &c.Obligs[i]
		if o.Rule != "R2-finish" || !strings.HasPrefix(o.Construct, finish) {
			continue
		}
		k := strings.Index(o.Construct, "⇐ps:")
		if k < 0 || !strings.Contains(o.Construct[k:], "closed") {
			continue
		}
		o.Detail = "superseded by C37/X2-retire.Mailbox: this base clause ties re-arming/retiring a shard to its closed flag, which is the defect (a shard closed while an admitted item is queued was retired with the item left behind); base verdict was " + string(o.Status) + ": " + o.Detail
		o.Status = Exception
	}
}

// xc37EdgeIs: the CFG edge from→Succs[succ] establishes one of the atoms of guard g.
func xc37EdgeIs(from *ssa.BasicBlock, succ int, g guardSpec) bool {
	a, ok := c37EdgeAtom(from, succ)
	if !ok {
		return false
	}
	for _, sp := range g.atoms {
		if sp.Satisfies(a) {
			return true
		}
	}
	return false
}

// xc37EmptyArm: the edge is the default continuation of a NON-blocking select that has a receive
// arm on chanGlob, i.e. "the queue was observed empty".
func xc37EmptyArm(from *ssa.BasicBlock, succ int, chanGlob string) bool {
	if succ != 1 || len(from.Instrs) == 0 {
		return false
	}
	iff, ok := from.Instrs[len(from.Instrs)-1].(*ssa.If)
	if !ok {
		return false
	}
	bin, ok := iff.Cond.(*ssa.BinOp)
	if !ok {
		return false
	}
	ex, ok := bin.X.(*ssa.Extract)
	if !ok || ex.Index != 0 {
		return false
	}
	sel, ok := ex.Tuple.(*ssa.Select)
	if !ok || sel.Blocking {
		return false
	}
	k, ok := c26ConstInt(bin.Y)
	if !ok || k != len(sel.States)-1 {
		return false
	}
	for _, st := range sel.States {
		if st.Dir == types.RecvOnly && glob(chanGlob, Path(st.Chan)) {
			return true
		}
	}
	return false
}

// xc37ArmOn: the edge is the chosen-arm edge of a select receiving from a channel rendering to chanGlob.
func xc37ArmOn(from *ssa.BasicBlock, succ int, chanGlob string) bool {
	return c26ArmIs(from, succ, false, chanGlob)
}

func xc37Report(c *Ctx, rule, construct string, fn *ssa.Function, res c26TResult, bad, held string) {
	switch {
	case res.overflow:
		c.add("order", rule, construct, Undecided, c.P.Pos(fn.Pos()), "path-sensitive exploration exceeded its state budget")
	case len(res.bad) > 0:
		var at []string
		for _, in := range res.bad {
			at = append(at, c.P.InstrPos(in))
		}
		sort.Strings(at)
		at = dedupAll(at)
		c.add("order", rule, construct, Violated, at[0], fmt.Sprintf("%s (at %s)", bad, strings.Join(at, ", ")))
	default:
		c.add("order", rule, construct, Held, c.P.Pos(fn.Pos()), fmt.Sprintf("%s (%d path states explored)", held, res.states))
	}
}

// ---------------------------------------------------------------------------
// ShardedMailbox

func xc37Mailbox(c *Ctx, wq string) {
	const M = "pkg/workqueue.ShardedMailbox"
	finish := c.Fn(M + ".finishShardDrain")
	if finish == nil {
		return
	}
	const dead = "context.Context.Err(shard.parent.ctx) != nil || *.IsClosed(shard.parent.pool*) == true"
	guard := "len(shard.queue) <= 0 || " + dead + " || shard == nil"
	g := parseGuard(guard)
	done := CallTo{"sync.WaitGroup.Done"}
	construct := M + ".finishShardDrain#retires-only-an-empty-shard"
	if len(instrsMatching(finish, done)) == 0 {
		c.add("guard", "X2-retire.Mailbox", construct, Undecided, c.P.Pos(finish.Pos()), "finishShardDrain has no wg.Done call (anchor moved?)")
		return
	}
	res := c26Explore(c26TSpec{fn: finish, guard: &g, step: func(st int, in ssa.Instruction) int {
		if done.Match(in) {
			return c26Bad
		}
		return st
	}})
	xc37Report(c, "X2-retire.Mailbox", construct, finish, res,
		"ShardedMailbox.finishShardDrain can reach wg.Done() — retiring the shard, which is what Close waits for — on a feasible path that establishes neither len(shard.queue) <= 0 nor a dead runtime ("+dead+"): an item admitted in the tail window of the drain (after nextItem saw the queue empty, while scheduled was still true so no new drain was scheduled for it) is left in the queue when the shard was closed before finishShardDrain; Close returns nil and the accepted item never runs. The re-arm must not depend on the shard's closed flag",
		"wg.Done is reachable only behind an empty queue or a dead runtime")
}

// ---------------------------------------------------------------------------
// BoundedWorkerQueue

func xc37WorkerQueue(c *Ctx, wq string) {
	const Q = "pkg/workqueue.BoundedWorkerQueue"
	xc37Sweep(c, "X2-retire.WorkerQueue", c.Fn(Q+".drain"), "q.queue", "")
}

// xc37Sweep: a close-time sweep returns only after it observed the queue empty (default arm of
// its non-blocking receive) or, when handoff != "", after the hand-off reported failure.
func xc37Sweep(c *Ctx, rule string, fn *ssa.Function, chanGlob, handoff string) {
	if fn == nil {
		return
	}
	name := c.P.Name(fn)
	res := c26Explore(c26TSpec{fn: fn,
		onEdge: func(st int, from *ssa.BasicBlock, succ int) int {
			switch {
			case xc37EmptyArm(from, succ, chanGlob):
				return 1
			case xc37ArmOn(from, succ, chanGlob):
				return 0
			}
			if handoff != "" {
				if ok, val := c26CallEdge(from, succ, handoff); ok && !val {
					return 1
				}
			}
			return st
		},
		exit: func(st int, ret *ssa.Return) bool { return st != 1 },
	})
	excuse := ""
	if handoff != "" {
		excuse = " or after a failed executor hand-off"
	}
	xc37Report(c, rule, name+"#sweep-returns-only-on-empty-queue", fn, res,
		"the close-time sweep "+name+" can return on a path that did not observe "+chanGlob+" empty (default arm of its non-blocking receive)"+excuse+": accepted items stay queued after the only goroutine serving them has left, Close does not wait for them and they never run",
		"every return follows the empty-queue arm"+excuse)
}

// ---------------------------------------------------------------------------
// BoundedPool / BoundedBatchPool

func xc37Pool(c *Ctx, wq, typ string, batch bool) {
	P := wq + "." + typ
	dispatch := c.Fn(P + ".dispatch")
	drainQ := c.Fn(P + ".drainQueue")
	toExec := c.Fn(P + ".submitToExecutor")
	handoff := P + ".submitToExecutor"
	cancelOff := parseGuard("!" + P + ".shouldCancelAccepted(p) || !p.cfg.CancelAcceptedOnClose || !sync/atomic.Bool.Load(p.closed)")
	cancelOn := parseGuard(P + ".shouldCancelAccepted(p) == true")
	cfgOn := parseGuard("p.cfg.CancelAcceptedOnClose")

	// X1-abandon: after a failed hand-off the dispatcher leaves only behind the sweep or with cancel mode off
	if dispatch != nil {
		res := c26Explore(c26TSpec{fn: dispatch,
			onEdge: func(st int, from *ssa.BasicBlock, succ int) int {
				if ok, val := c26CallEdge(from, succ, handoff); ok {
					if val || !batch {
						return 0 // delivered, or a pool without a cancel mode: X1-giveup bounds the failure reasons
					}
					return 1
				}
				if st == 1 && xc37EdgeIs(from, succ, cancelOff) {
					return 0
				}
				return st
			},
			step: func(st int, in ssa.Instruction) int {
				if (CallTo{P + ".cancelQueued"}).Match(in) || (CallTo{P + ".drainQueue"}).Match(in) {
					return 0
				}
				if (CallTo{handoff}).Match(in) {
					return 0
				}
				return st
			},
			exit: func(st int, ret *ssa.Return) bool { return st == 1 },
		})
		xc37Report(c, "X1-abandon."+typ, P+".dispatch#failed-handoff-is-followed-by-the-close-sweep", dispatch, res,
			typ+".dispatch returns after submitToExecutor reported failure without cancelQueued()/drainQueue() and without establishing that cancel mode is off: with CancelAcceptedOnClose the hand-off fails on every graceful Close that finds the dispatcher holding a batch (submitToExecutor/retryExecutor cancel the held batch and return false), so the items still in p.queue are neither run nor cancelled, their slots stay taken and Close returns nil",
			"every return after a failed hand-off is behind the close sweep or a cancel-mode-off test")
	}
	if batch {
		// the drain-mode sweep has no cancel sweep of its own: it must be unreachable in cancel mode
		c.ConfineCalls("X1-abandon."+typ, P+".drainQueue", 1, P+".dispatch")
		c.c26GuardPS("X1-abandon."+typ, dispatch, CallTo{P + ".drainQueue"}, "!p.cfg.CancelAcceptedOnClose")
		c.ConfineCalls("X1-abandon."+typ, P+".cancelQueued", 1, P+".dispatch")
	}

	// X1-giveup: reasons for which the hand-off may report failure
	giveup := func(fn *ssa.Function, what string, delegate string) {
		if fn == nil {
			return
		}
		name := c.P.Name(fn)
		retFalse := Ret{0, "false"}
		if len(instrsMatching(fn, retFalse)) == 0 {
			c.add("order", "X1-giveup."+typ, name+"#fails-only-when-executor-or-runtime-is-gone", Undecided, c.P.Pos(fn.Pos()), "no `return false` found (anchor moved?)")
			return
		}
		closedErr := parseGuard("errors.Is(*, *.ErrPoolClosed) == true")
		res := c26Explore(c26TSpec{fn: fn,
			onEdge: func(st int, from *ssa.BasicBlock, succ int) int {
				switch {
				case xc37EdgeIs(from, succ, closedErr):
					return st | 1
				case xc37ArmOn(from, succ, "context.Context.Done(p.ctx)"):
					return st | 1
				case batch && xc37EdgeIs(from, succ, cancelOn):
					return st | 1
				case batch && xc37EdgeIs(from, succ, cfgOn):
					return st | 2 // cancel-mode branch: its stop arm means "accepted work is being cancelled"
				case batch && st&2 != 0 && xc37ArmOn(from, succ, "p.stop"):
					return st | 1
				}
				if delegate != "" {
					if ok, val := c26CallEdge(from, succ, delegate); ok && !val {
						return st | 1
					}
				}
				return st
			},
			step: func(st int, in ssa.Instruction) int {
				if (CallTo{"*.PoolWithFuncGeneric.Invoke"}).Match(in) {
					return st &^ 1 // a new attempt: earlier excuses do not carry over
				}
				if retFalse.Match(in) && st&1 == 0 {
					return c26Bad
				}
				return st
			},
		})
		xc37Report(c, "X1-giveup."+typ, name+"#fails-only-when-executor-or-runtime-is-gone", fn, res,
			name+" can return false on a path that establishes none of: executor closed (errors.Is(err, ErrPoolClosed)), runtime context done (<-p.ctx.Done() arm)"+what+". A false result makes the dispatcher stop serving p.queue for good (X1-abandon relies on these being the only reasons), so every other cause strands the accepted items that are still queued",
			"false is returned only for the enumerated reasons")
	}
	if batch {
		giveup(toExec, ", accepted work being cancelled (shouldCancelAccepted), a failed retryExecutor", P+".retryExecutor")
		giveup(c.Fn(P+".retryExecutor"), ", the <-p.stop arm of the CancelAcceptedOnClose branch, accepted work being cancelled (shouldCancelAccepted)", "")
	} else {
		giveup(toExec, "", "")
	}

	// X2-retire: the close-time sweeps
	xc37Sweep(c, "X2-retire."+typ, drainQ, "p.queue", handoff)
	if batch {
		xc37Sweep(c, "X2-retire."+typ, c.Fn(P+".cancelQueued"), "p.queue", "")
	}
}
