package main

import (
	"fmt"
	"go/constant"
	"go/token"
	"go/types"
	"sort"
	"strings"

	"golang.org/x/tools/go/ssa"
)

func init() {
	register(&PropSpec{
		ID:        "C18",
		Pkgs:      []string{"./pkg/controller/fsm", "./pkg/controller/state", "./pkg/controller/command"},
		Technique: "static analysis: VTA call-graph determinism closure + map-range triage, interprocedural who-writes-the-candidate-state analysis (snapshot-before-write, restore-on-reject, noop field coverage), monotone-store classification, SSA edge-dominance for the checksum→save→publish order and the replay guard, enum exhaustiveness of the handler switch",
		Explain: "Decides structural clauses of the controller FSM: (R1) nothing reachable from Apply/ApplyBatch/Restore and state.Normalize/Validate/Checksum/Encode/Decode/Clone reads a clock, randomness, the environment or starts goroutines; every map range in that closure is an enumerated collect-then-sort site; UpdatedAt is written only by validateChanged (from nextUpdatedAt(before.UpdatedAt, cmd.IssuedAt), which returns only UTC of one of its arguments) and Normalize. " +
			"(R2) ClusterState.Revision is stored only as Revision+1 in validateChanged (plus the init literal and comparison copies); Changed results come only from changed(), called only by validateChanged behind Validate()==nil and by applyInit behind next.Revision==0; every validateChanged call is returned directly with a snapshot `before` = next.Clone() taken before any write to the candidate state; a reject reached after a write first restores *next = before; a noop reached after writes is behind reflect.DeepEqual(before.F, next.F) (or an explicit restore) for every written field F; the only functions writing through a *ClusterState are the enumerated handlers/helpers, and the pre-handler revision checks are read-only. " +
			"(R3) ApplyBatch/Restore publish sm.state = next.Clone() only after Checksum(next) and Store.Save(ctx,next) succeeded, the checksum is stored before Save with no other write in between, Save is outside the entry loop, and sm.state/degraded are accessed under sm.mu. (R4) applyMutation is reached only for entries with Index > next.AppliedRaftIndex (or before init), on the same objects that are later saved; AppliedRaftIndex only grows. (R5) every command.Kind constant has an arm that calls an apply* handler. " +
			"NOT decided: batch-partition equivalence as values, that Normalize is idempotent, the per-command semantic guards (attempt/epoch/phase) as values, that Validate encodes the right invariants.",
		Run: c18,
		Mutants: []Mutant{
			{Name: "validatechanged-no-rollback", File: "pkg/controller/fsm/mutation_guards.go",
				Old: "\t\t*next = before\n\t\treturn reject(ReasonInvalidState)\n\t}\n\treturn changed()", New: "\t\treturn reject(ReasonInvalidState)\n\t}\n\treturn changed()",
				Expect: "C18/R2-rollback/*validateChanged*"},
			{Name: "validatechanged-skips-validate", File: "pkg/controller/fsm/mutation_guards.go",
				Old: "if err := next.Validate(); err != nil {\n\t\t*next = before\n\t\treturn reject(ReasonInvalidState)\n\t}\n\treturn changed()", New: "return changed()",
				Expect: "C18/R2-changed/*"},
			{Name: "validatechanged-double-bump", File: "pkg/controller/fsm/mutation_guards.go",
				Old: "next.Revision++\n\tnext.UpdatedAt", New: "next.Revision += 2\n\tnext.UpdatedAt",
				Expect: "C18/R2-mono/*"},
			{Name: "handler-bumps-revision", File: "pkg/controller/fsm/mutation_handlers.go",
				Old: "next.Tasks[idx].Attempt++\n", New: "next.Tasks[idx].Attempt++\n\tnext.Revision++\n",
				Expect: "C18/R2-confine/*Revision*"},
			{Name: "handler-reports-changed-directly", File: "pkg/controller/fsm/mutation_handlers.go",
				Old:    "\tnext.Tasks = append(next.Tasks[:idx], next.Tasks[idx+1:]...)\n\tnext.Normalize()\n\treturn validateChanged(next, before, cmd)\n}\n\nfunc (sm *StateMachine) applyFailTask",
				New:    "\tnext.Tasks = append(next.Tasks[:idx], next.Tasks[idx+1:]...)\n\tnext.Normalize()\n\t_ = before\n\treturn changed()\n}\n\nfunc (sm *StateMachine) applyFailTask",
				Expect: "C18/R2-confine/callers:*changed"},
			{Name: "handler-snapshot-after-write", File: "pkg/controller/fsm/mutation_handlers.go",
				Old: "\tbefore := next.Clone()\n\tnext.Controllers = append([]state.ControllerVoter(nil), cmd.Controllers...)\n", New: "\tnext.Controllers = append([]state.ControllerVoter(nil), cmd.Controllers...)\n\tbefore := next.Clone()\n",
				Expect: "C18/R2-snapshot/*applyUpdateControllerVoters*"},
			{Name: "handler-noop-ignores-written-field", File: "pkg/controller/fsm/mutation_handlers.go",
				Old: "if reflect.DeepEqual(before.Slots, next.Slots) && reflect.DeepEqual(before.Tasks, next.Tasks) {", New: "if reflect.DeepEqual(before.Slots, next.Slots) {",
				Expect: "C18/R2-noop/*applyUpsertSlotAssignmentAndTask*"},
			{Name: "nodehealth-reject-without-restore", File: "pkg/controller/fsm/mutation_handlers.go",
				Old: "\tif err := next.Validate(); err != nil {\n\t\t*next = before\n\t\treturn reject(ReasonInvalidState)\n\t}\n\tif equivalentNodeHealthReports", New: "\tif err := next.Validate(); err != nil {\n\t\treturn reject(ReasonInvalidState)\n\t}\n\tif equivalentNodeHealthReports",
				Expect: "C18/R2-rollback/*applyReportNodeHealth*"},
			{Name: "precheck-mutates-state", File: "pkg/controller/fsm/mutation_guards.go",
				Old:    "\tif findTaskByID(current.Tasks, cmd.TaskResult.TaskID) < 0 {\n\t\treturn noop(ReasonTaskMissing), true\n\t}\n\treturn reject(ReasonExpectedRevisionMismatch), true\n}\n\nfunc handleTaskProgressRevisionMismatch",
				New:    "\tif findTaskByID(current.Tasks, cmd.TaskResult.TaskID) < 0 {\n\t\tcurrent.Tasks = nil\n\t\treturn noop(ReasonTaskMissing), true\n\t}\n\treturn reject(ReasonExpectedRevisionMismatch), true\n}\n\nfunc handleTaskProgressRevisionMismatch",
				Expect: "C18/R2-writers/*"},
			{Name: "applybatch-publish-before-save", File: "pkg/controller/fsm/fsm.go",
				Old:    "\tnext.Checksum = checksum\n\tif err := sm.store.Save(ctx, next); err != nil {\n\t\tsm.degraded = true\n\t\treturn out, err\n\t}\n\tsm.state = next.Clone()\n\tsm.degraded = false\n\tout.FinalState",
				New:    "\tnext.Checksum = checksum\n\tsm.state = next.Clone()\n\tif err := sm.store.Save(ctx, next); err != nil {\n\t\tsm.degraded = true\n\t\treturn out, err\n\t}\n\tsm.degraded = false\n\tout.FinalState",
				Expect: "C18/R3-order/*ApplyBatch*"},
			{Name: "applybatch-save-per-entry", File: "pkg/controller/fsm/fsm.go",
				Old: "\t\tout.Results = append(out.Results, result)\n\t}\n", New: "\t\tout.Results = append(out.Results, result)\n\t\t_ = sm.store.Save(ctx, next)\n\t}\n",
				Expect: "C18/R3-order/*"},
			{Name: "applybatch-stale-checksum", File: "pkg/controller/fsm/fsm.go",
				Old:    "\tnext.Checksum = checksum\n\tif err := sm.store.Save(ctx, next); err != nil {\n\t\tsm.degraded = true\n\t\treturn out, err\n\t}\n\tsm.state = next.Clone()\n\tsm.degraded = false\n\tout.FinalState",
				New:    "\tnext.Checksum = checksum\n\tnext.Normalize()\n\tif err := sm.store.Save(ctx, next); err != nil {\n\t\tsm.degraded = true\n\t\treturn out, err\n\t}\n\tsm.state = next.Clone()\n\tsm.degraded = false\n\tout.FinalState",
				Expect: "C18/R3-order/*"},
			{Name: "restore-ignores-save-error", File: "pkg/controller/fsm/fsm.go",
				Old: "\t\tif err := sm.store.Save(ctx, next); err != nil {\n\t\t\tsm.degraded = true\n\t\t\treturn err\n\t\t}\n\t}\n\tsm.state = next.Clone()", New: "\t\t_ = sm.store.Save(ctx, next)\n\t}\n\tsm.state = next.Clone()",
				Expect: "C18/R3-order/*Restore*"},
			{Name: "replay-guard-off-by-one", File: "pkg/controller/fsm/fsm.go",
				Old: "if current.Revision != 0 && entry.Index <= next.AppliedRaftIndex {", New: "if current.Revision != 0 && entry.Index < next.AppliedRaftIndex {",
				Expect: "C18/R4-replay/*"},
			{Name: "replay-guard-dropped", File: "pkg/controller/fsm/fsm.go",
				Old: "if current.Revision != 0 && entry.Index <= next.AppliedRaftIndex {", New: "if current.Revision != 0 && entry.Index == 0 {",
				Expect: "C18/R4-replay/*"},
			{Name: "applied-index-unconditional", File: "pkg/controller/fsm/fsm.go",
				Old: "if next.Revision != 0 && entry.Index > next.AppliedRaftIndex {", New: "if next.Revision != 0 {",
				Expect: "C18/R4-mono/*"},
			{Name: "dispatch-forgets-kind", File: "pkg/controller/fsm/mutations.go",
				Old: "\tcase command.KindCompleteTask:\n\t\tresult = sm.applyCompleteTask(next, cmd)\n", New: "",
				Expect: "C18/R5-exhaust/*"},
			{Name: "updatedat-from-wall-clock", File: "pkg/controller/fsm/mutation_guards.go",
				Old: "if issuedAt.IsZero() {\n\t\treturn previous.UTC()\n\t}\n\treturn issuedAt.UTC()", New: "if issuedAt.IsZero() {\n\t\treturn time.Now().UTC()\n\t}\n\treturn issuedAt.UTC()",
				Expect: "C18/R1-determ/*"},
			{Name: "transitions-unsorted", File: "pkg/controller/fsm/task_transition.go",
				Old: "\tsort.Strings(ids)\n", New: "\t_ = sort.Strings\n",
				Expect: "C18/R1-determ/*maprange*"},
		},
	})
}

func c18(c *Ctx) {
	const (
		fsm = "pkg/controller/fsm."
		SM  = fsm + "StateMachine."
		st  = "pkg/controller/state."
		CS  = st + "ClusterState."
	)
	w := &c18W{c: c, memo: map[string]map[string]bool{}, busy: map[string]bool{}}

	// ------------------------------------------------------------------ R1 determinism
	var roots []*ssa.Function
	for _, n := range []string{SM + "Apply", SM + "ApplyBatch", SM + "Restore", CS + "Normalize", CS + "Validate", CS + "Clone", st + "Checksum", st + "Encode", st + "Decode"} {
		roots = append(roots, c.Fn(n))
	}
	c.Deterministic("R1-determ", roots, nil, nil)
	c18MapRanges(c, "R1-determ", roots, map[string]string{
		fsm + "taskTransitionsForCommand": "task ids of both maps are collected and sort.Strings(ids) runs before they are used",
	})
	vc := c.Fn(fsm + "validateChanged")
	c.StoreShape("R1-determ", vc, "next.UpdatedAt", fsm+"nextUpdatedAt(before.UpdatedAt, cmd.IssuedAt)")
	nua := c.Fn(fsm + "nextUpdatedAt")
	c18RetShape(c, "R1-determ", nua, 0, "time.Time.UTC(previous)", "time.Time.UTC(issuedAt)")
	c.Guard("R1-determ", nua, Ret{0, "time.Time.UTC(previous)"}, "time.Time.IsZero(issuedAt)")
	cia := c.Fn(fsm + "commandIssuedAt")
	c18RetShape(c, "R1-determ", cia, 0, "zero:Time", "time.Time.UTC(issuedAt)")
	isc := c.Fn(fsm + "initialStateFromCommand")
	c.StoreShape("R1-determ", isc, "alloc:ClusterState.UpdatedAt", fsm+"commandIssuedAt(cmd.IssuedAt)")
	c.ConfineStores("R1-determ", st+"ClusterState.UpdatedAt", false, fsm+"validateChanged", CS+"Normalize")

	// ------------------------------------------------------------------ R2 revision discipline
	c.Mono("R2-mono", st+"ClusterState.Revision", MonoOpts{LiteralsToo: true, Scope: []string{fsm + "*"}, Resets: map[string]string{
		fsm + "initialStateFromCommand": "init: the first state is built with revision 1 and installed only behind next.Revision == 0",
		fsm + "equivalentInit":          "comparison copies: both clones get revision 1 before DeepEqual, neither is published",
	}})
	c.Min("R2-mono", 5)
	c.StoreShape("R2-mono", c.Fn(fsm+"validateChanged"), "next.Revision", "(next.Revision + 1)")
	c.ConfineStores("R2-confine", st+"ClusterState.Revision", false, fsm+"validateChanged")
	c.ConfineStores("R2-confine", fsm+"ApplyResult.Changed", true, fsm+"changed")
	c.ConfineCalls("R2-confine", fsm+"changed", 2, fsm+"validateChanged", SM+"applyInit")
	c.StoreShape("R2-confine", c.Fn(fsm+"changed"), "alloc:ApplyResult.Changed", "true")

	// validateChanged: bump once, validate, roll back or report the change
	retChanged := Ret{0, fsm + "changed()"}
	retReject := Ret{0, fsm + "reject(*)"}
	validate := CallTo{CS + "Validate(next)"}
	bump := StoreTo{Addr: "next.Revision", Val: "(next.Revision + 1)"}
	c.Guard("R2-changed", vc, retChanged, CS+"Validate(next) == nil")
	c18Before(c, "R2-changed", vc, validate, bump)
	c18Count(c, "R2-changed", vc, StoreTo{Addr: "next.Revision"}, 1)
	c18RetShape(c, "R2-changed", vc, 0, fsm+"changed()", fsm+"reject(*)")
	c.Guard("R2-rollback", vc, retReject, CS+"Validate(next) != nil")
	c18Before(c, "R2-rollback", vc, retReject, StoreTo{Addr: "next", Val: "before"})
	c.Guard("R2-rollback", vc, StoreTo{Addr: "next", Val: "before"}, CS+"Validate(next) != nil")
	// applyInit: the only other producer of a Changed result
	ai := c.Fn(SM + "applyInit")
	c.Guard("R2-changed", ai, retChanged, "next.Revision == 0", fsm+"initialStateFromCommand(*)#1 == nil", "cmd.Init != nil")
	c.Guard("R2-changed", ai, StoreTo{Addr: "next"}, "next.Revision == 0", fsm+"initialStateFromCommand(*)#1 == nil")
	c.StoreShape("R2-changed", ai, "next", fsm+"initialStateFromCommand(cmd, raftIndex)#0")
	c.Guard("R2-changed", isc, RetNil{}, CS+"Validate(*) == nil", st+"BuildInitialHashSlotTable(*)#1 == nil")
	c.StoreShape("R2-changed", isc, "alloc:ClusterState.Revision", "1")
	c.StoreShape("R2-changed", isc, "alloc:ClusterState.AppliedRaftIndex", "raftIndex")

	// handlers: snapshot before write, validateChanged returned directly, reject restores, noop covers written fields
	handlers := c.Fns(SM + "apply*")
	nChanged := 0
	for _, h := range handlers {
		name := c.P.Name(h)
		if name == SM+"applyMutation" || strings.Contains(name, "$") {
			continue
		}
		root := c18StateParam(h)
		if root == nil {
			c.add("shape", "R2-snapshot", name+"#candidate-param", Undecided, c.P.Pos(h.Pos()), "handler has no *ClusterState parameter")
			continue
		}
		nChanged += c18ChangedSites(c, w, "R2-snapshot", h, root)
		c18RejectRestores(c, w, "R2-rollback", h, root)
		c18NoopCover(c, w, "R2-noop", h, root)
		c18WholeStores(c, "R2-rollback", h, root)
	}
	if nChanged < 13 {
		c.add("vacuity", "R2-snapshot", "validateChanged-sites", Undecided, "", fmt.Sprintf("%d validateChanged call sites found in the handlers, hand-confirmed minimum 13", nChanged))
	}
	c.ConfineCalls("R2-snapshot", fsm+"validateChanged", 13, SM+"apply*")
	c.Min("R2-noop", 15)

	// who may write through a *ClusterState at all
	c18Writers(c, w, "R2-writers", fsm+"*", []string{
		SM + "apply*", fsm + "validateChanged", fsm + "upsertNode", fsm + "upsertAssignment", fsm + "upsertTask", fsm + "upsertNodeHealthReport",
	}, 19)
	am := c.Fn(SM + "applyMutation")
	c18CallsWithRoot(c, w, "R2-writers", am, []string{SM + "apply*"})

	// ------------------------------------------------------------------ R3 checksum → save → publish
	ab := c.Fn(SM + "ApplyBatch")
	rs := c.Fn(SM + "Restore")
	save := CallTo{fsm + "Store.Save"}
	for _, fn := range []*ssa.Function{ab, rs} {
		if fn == nil {
			continue
		}
		publish := StoreTo{Addr: "sm.state"}
		c.Guard("R3-order", fn, publish, fsm+"Store.Save(sm.store, ctx, *) == nil || *.Revision == 0")
		c.Guard("R3-order", fn, save, st+"Checksum(*)#1 == nil", "*.Revision != 0")
		c.Guard("R3-order", fn, RetNil{}, fsm+"Store.Save(sm.store, ctx, *) == nil || *.Revision == 0")
		c18Count(c, "R3-order", fn, save, 1)
		c18NotInLoop(c, "R3-order", fn, save)
		c18SaveProtocol(c, w, "R3-order", fn)
	}
	c.Guard("R3-order", ab, StoreTo{Addr: "sm.state"}, fsm+"Store.Save(sm.store, ctx, *) == nil")
	c.ConfineCalls("R3-order", fsm+"Store.Save", 2, SM+"ApplyBatch", SM+"Restore")
	c.ConfineStores("R3-order", fsm+"StateMachine.state", false, SM+"ApplyBatch", SM+"Restore", SM+"Load", SM+"Reset")
	c.CallShape("R3-order", c.Fn(SM+"Apply"), SM+"ApplyBatch", SM+"ApplyBatch(sm, ctx, *)")
	c.Lockset("R3-lock", LockSpec{Struct: fsm + "StateMachine", Mutex: "mu", Fields: []string{"state", "degraded"}, ReadsToo: true,
		Exempt: []string{fsm + "New"}})

	// ------------------------------------------------------------------ R4 replay guard
	c.Guard("R4-replay", ab, CallTo{SM + "applyMutation"}, "*.Revision == 0 || *.Index > *.AppliedRaftIndex")
	c18ReplayIdentity(c, "R4-replay", ab)
	c.StoreShape("R4-replay", ab, "alloc:ApplyResult.Noop", "true")
	c.Mono("R4-mono", st+"ClusterState.AppliedRaftIndex", MonoOpts{LiteralsToo: true, Scope: []string{fsm + "*"}, Resets: map[string]string{
		fsm + "initialStateFromCommand": "init: the first state records the raft index of the init entry itself",
		fsm + "equivalentInit":          "comparison copies: both clones are zeroed before DeepEqual, neither is published",
	}})
	c.Min("R4-mono", 4)

	// ------------------------------------------------------------------ R5 exhaustiveness
	if am != nil {
		c.Exhaustive("R5-exhaust", []*ssa.Function{am}, "pkg/controller/command", "Kind", "Kind", nil)
		c18Arms(c, "R5-exhaust", am, "pkg/controller/command", "Kind", SM+"apply*")
	}
}

// ---------------------------------------------------------------------------
// generic small helpers

func c18RetShape(c *Ctx, rule string, fn *ssa.Function, idx int, globs ...string) {
	if fn == nil {
		return
	}
	fname := c.P.Name(fn)
	var bad []string
	n := 0
	for _, in := range instrsMatching(fn, AnyRet{}) {
		ret := in.(*ssa.Return)
		if idx >= len(ret.Results) {
			continue
		}
		n++
		if got := Path(retOperand(ret, idx)); !globAny(globs, got) {
			bad = append(bad, got+" at "+c.P.InstrPos(in))
		}
	}
	construct := fmt.Sprintf("%s#result[%d]∈%v", fname, idx, globs)
	switch {
	case n == 0:
		c.add("shape", rule, construct, Undecided, c.P.Pos(fn.Pos()), "no return found")
	case len(bad) > 0:
		c.add("shape", rule, construct, Violated, c.P.Pos(fn.Pos()), "returned value of an unexpected shape: "+strings.Join(bad, "; "))
	default:
		c.add("shape", rule, construct, Held, c.P.Pos(fn.Pos()), fmt.Sprintf("%d return(s), each returns one of %v", n, globs))
	}
}

// c18ReachNoBarrier: per block, how many leading instructions can execute before any instruction matching barrier has run.
func c18ReachNoBarrier(fn *ssa.Function, barrier func(ssa.Instruction) bool) map[*ssa.BasicBlock]int {
	limit := map[*ssa.BasicBlock]int{}
	if len(fn.Blocks) == 0 {
		return limit
	}
	work := []*ssa.BasicBlock{fn.Blocks[0]}
	seen := map[*ssa.BasicBlock]bool{fn.Blocks[0]: true}
	for len(work) > 0 {
		b := work[len(work)-1]
		work = work[:len(work)-1]
		stop := -1
		for i, in := range b.Instrs {
			if barrier(in) {
				stop = i
				break
			}
		}
		if stop >= 0 {
			limit[b] = stop
			continue
		}
		limit[b] = len(b.Instrs)
		for _, s := range b.Succs {
			if !seen[s] {
				seen[s] = true
				work = append(work, s)
			}
		}
	}
	return limit
}

// c18Before: every instruction matching eff is reached from the entry only after an instruction matching barrier.
func c18Before(c *Ctx, rule string, fn *ssa.Function, eff, barrier Effect) {
	if fn == nil {
		return
	}
	fname := c.P.Name(fn)
	construct := fname + "#" + barrier.String() + " before " + eff.String()
	effs := instrsMatching(fn, eff)
	if len(effs) == 0 || len(instrsMatching(fn, barrier)) == 0 {
		c.add("order", rule, construct, Violated, c.P.Pos(fn.Pos()), fmt.Sprintf("%d effect site(s) %q, %d site(s) of the required preceding step %q", len(effs), eff.String(), len(instrsMatching(fn, barrier)), barrier.String()))
		return
	}
	limit := c18ReachNoBarrier(fn, barrier.Match)
	var bad []string
	for _, e := range effs {
		if lim, ok := limit[e.Block()]; ok && indexIn(e.Block(), e) < lim {
			bad = append(bad, c.P.InstrPos(e))
		}
	}
	if len(bad) > 0 {
		c.add("order", rule, construct, Violated, bad[0], fmt.Sprintf("in %s %q is reachable without first executing %q (at %s)", fname, eff.String(), barrier.String(), strings.Join(bad, ", ")))
		return
	}
	c.add("order", rule, construct, Held, c.P.InstrPos(effs[0]), fmt.Sprintf("%d site(s) of %q, each reachable only after %q", len(effs), eff.String(), barrier.String()))
}

// c18Count: exactly n instructions of fn match eff.
func c18Count(c *Ctx, rule string, fn *ssa.Function, eff Effect, n int) {
	if fn == nil {
		return
	}
	got := instrsMatching(fn, eff)
	construct := fmt.Sprintf("%s#count(%s)=%d", c.P.Name(fn), eff.String(), n)
	if len(got) != n {
		pos := c.P.Pos(fn.Pos())
		if len(got) > 0 {
			pos = c.P.InstrPos(got[len(got)-1])
		}
		c.add("shape", rule, construct, Violated, pos, fmt.Sprintf("%d site(s) of %q, exactly %d expected", len(got), eff.String(), n))
		return
	}
	c.add("shape", rule, construct, Held, c.P.InstrPos(got[0]), fmt.Sprintf("exactly %d site(s) of %q", n, eff.String()))
}

func c18InCycle(b *ssa.BasicBlock) bool {
	seen := map[*ssa.BasicBlock]bool{}
	work := append([]*ssa.BasicBlock(nil), b.Succs...)
	for len(work) > 0 {
		x := work[len(work)-1]
		work = work[:len(work)-1]
		if x == b {
			return true
		}
		if seen[x] {
			continue
		}
		seen[x] = true
		work = append(work, x.Succs...)
	}
	return false
}

// c18NotInLoop: no instruction matching eff sits in a CFG cycle (it runs at most once per call).
func c18NotInLoop(c *Ctx, rule string, fn *ssa.Function, eff Effect) {
	if fn == nil {
		return
	}
	construct := c.P.Name(fn) + "#once-per-call:" + eff.String()
	var bad []string
	for _, in := range instrsMatching(fn, eff) {
		if c18InCycle(in.Block()) {
			bad = append(bad, c.P.InstrPos(in))
		}
	}
	if len(bad) > 0 {
		c.add("order", rule, construct, Violated, bad[0], fmt.Sprintf("%q executes inside a loop (at %s): the batch would be persisted more than once", eff.String(), strings.Join(bad, ", ")))
		return
	}
	c.add("order", rule, construct, Held, c.P.Pos(fn.Pos()), fmt.Sprintf("%q is outside every loop", eff.String()))
}

// ---------------------------------------------------------------------------
// R1: map ranges

func c18MapRanges(c *Ctx, rule string, roots []*ssa.Function, triaged map[string]string) {
	_, order := c.Reach(roots, nil)
	c.MapRanges(rule, order, triaged, nil, nil)
}

// ---------------------------------------------------------------------------
// who writes through a *ClusterState

type c18W struct {
	c    *Ctx
	memo map[string]map[string]bool
	busy map[string]bool
}

// c18RootPath strips loads, field/element selections and re-slicings: the object an address or
// reference value belongs to, and the field selected directly on that object ("" = the object itself).
func c18RootPath(v ssa.Value) (ssa.Value, string) {
	field := ""
	for depth := 0; depth < 16; depth++ {
		switch x := v.(type) {
		case *ssa.UnOp:
			if x.Op != token.MUL {
				return v, field
			}
			v = x.X
		case *ssa.FieldAddr:
			field = fieldName(x.X.Type(), x.Field)
			v = x.X
		case *ssa.Field:
			field = fieldName(x.X.Type(), x.Field)
			v = x.X
		case *ssa.IndexAddr:
			v = x.X
		case *ssa.Index:
			v = x.X
		case *ssa.Slice:
			v = x.X
		case *ssa.Alloc:
			if p := spilledParam(x); p != nil {
				return p, field
			}
			return x, field
		default:
			return v, field
		}
	}
	return v, field
}

func c18IsRef(t types.Type) bool {
	switch t.Underlying().(type) {
	case *types.Pointer, *types.Slice, *types.Map:
		return true
	}
	return false
}

var c18PureExternal = []string{"reflect.DeepEqual", "len", "cap", "fmt.*", "errors.*", "unicode/utf8.*", "strings.*", "time.*", "encoding/json.Marshal", "min", "max", "print*", "panic"}
var c18WritingExternal = []string{"sort.*", "slices.*", "copy", "append", "clear", "delete"}

// instrWrites: the set of fields of the object `root` that this instruction may write ("*" whole object,
// "~normalize" the canonicaliser, "?callee" an unknown external callee).
func (w *c18W) instrWrites(in ssa.Instruction, root ssa.Value) map[string]bool {
	out := map[string]bool{}
	add := func(f string) {
		if f == "" {
			f = "*"
		}
		out[f] = true
	}
	switch x := in.(type) {
	case *ssa.Store:
		if r, f := c18RootPath(x.Addr); r == root {
			add(f)
		}
	case *ssa.MapUpdate:
		if r, f := c18RootPath(x.Map); r == root {
			add(f)
		}
	case ssa.CallInstruction:
		com := x.Common()
		name := calleeName(com)
		args := com.Args
		for j, a := range args {
			if !c18IsRef(a.Type()) {
				continue
			}
			r, f := c18RootPath(a)
			if r != root {
				continue
			}
			if name == "pkg/controller/state.ClusterState.Normalize" && j == 0 && f == "" {
				out["~normalize"] = true
				continue
			}
			if com.IsInvoke() {
				out["?"+name] = true
				continue
			}
			callee := com.StaticCallee()
			if callee != nil && len(callee.Blocks) > 0 && inModule(callee) {
				if j >= len(callee.Params) {
					out["?"+name] = true
					continue
				}
				for wf := range w.paramWrites(callee, j) {
					switch {
					case f != "":
						out[f] = true
					default:
						out[wf] = true
					}
				}
				continue
			}
			switch {
			case globAny(c18PureExternal, name):
			case globAny(c18WritingExternal, name):
				if name == "append" && j != 0 {
					continue
				}
				if (name == "copy" || name == "delete" || name == "clear") && j != 0 {
					continue
				}
				add(f)
			default:
				out["?"+name] = true
			}
		}
	}
	if len(out) == 0 {
		return nil
	}
	return out
}

func (w *c18W) paramWrites(fn *ssa.Function, pi int) map[string]bool {
	key := fmt.Sprintf("%s#%d", funcShortName(fn), pi)
	if m, ok := w.memo[key]; ok {
		return m
	}
	if w.busy[key] {
		return nil
	}
	w.busy[key] = true
	out := map[string]bool{}
	if pi < len(fn.Params) {
		root := ssa.Value(fn.Params[pi])
		for _, f := range WithClosures(fn) {
			r := root
			if f != fn {
				// closures see the parameter as a free variable of the same name
				r = nil
				for _, fv := range f.FreeVars {
					if fv.Name() == fn.Params[pi].Name() {
						r = fv
					}
				}
				if r == nil {
					continue
				}
			}
			for _, b := range f.Blocks {
				for _, in := range b.Instrs {
					for k := range w.instrWrites(in, r) {
						out[k] = true
					}
				}
			}
		}
	}
	delete(w.busy, key)
	w.memo[key] = out
	return out
}

func c18StateParam(fn *ssa.Function) *ssa.Parameter {
	for _, p := range fn.Params {
		if ptr, ok := p.Type().Underlying().(*types.Pointer); ok && typeBaseName(ptr.Elem()) == "ClusterState" {
			return p
		}
	}
	return nil
}

func c18Keys(m map[string]bool) []string {
	var ks []string
	for k := range m {
		ks = append(ks, k)
	}
	sort.Strings(ks)
	return ks
}

// c18Writers: the functions in scope that write through a *ClusterState parameter are exactly the allowed ones.
func c18Writers(c *Ctx, w *c18W, rule, scope string, allowed []string, min int) {
	var writers, bad []string
	badPos := ""
	for _, fn := range c.Fns(scope) {
		name := c.P.Name(fn)
		if strings.Contains(name, "$") {
			continue
		}
		for i, p := range fn.Params {
			ptr, ok := p.Type().Underlying().(*types.Pointer)
			if !ok || typeBaseName(ptr.Elem()) != "ClusterState" {
				continue
			}
			ws := w.paramWrites(fn, i)
			if len(ws) == 0 {
				continue
			}
			writers = append(writers, name)
			if !globAny(allowed, name) {
				bad = append(bad, fmt.Sprintf("%s writes %v", name, c18Keys(ws)))
				if badPos == "" {
					badPos = c.P.Pos(fn.Pos())
				}
			}
		}
	}
	construct := "writers-of-*ClusterState@" + scope
	switch {
	case len(bad) > 0:
		c.add("confine", rule, construct, Violated, badPos, "a function outside the enumerated handlers/helpers mutates the candidate state it is given: "+strings.Join(bad, "; "))
	case len(writers) < min:
		c.add("confine", rule, construct, Undecided, "", fmt.Sprintf("%d writer function(s) found, hand-confirmed minimum %d", len(writers), min))
	default:
		c.add("confine", rule, construct, Held, "", fmt.Sprintf("%d function(s) write through a *ClusterState parameter, all enumerated: %s", len(writers), strings.Join(writers, ", ")))
	}
}

// c18CallsWithRoot: in fn, the candidate state is written only by calls to the allowed callees (the
// dispatcher itself and its pre-checks do not touch it).
func c18CallsWithRoot(c *Ctx, w *c18W, rule string, fn *ssa.Function, allowedCallees []string) {
	if fn == nil {
		return
	}
	root := c18StateParam(fn)
	construct := c.P.Name(fn) + "#writes-only-via-handlers"
	if root == nil {
		c.add("confine", rule, construct, Undecided, c.P.Pos(fn.Pos()), "no *ClusterState parameter")
		return
	}
	var bad []string
	n := 0
	for _, b := range fn.Blocks {
		for _, in := range b.Instrs {
			ws := w.instrWrites(in, root)
			if len(ws) == 0 {
				continue
			}
			n++
			if ci, ok := in.(ssa.CallInstruction); ok && globAny(allowedCallees, calleeName(ci.Common())) {
				continue
			}
			bad = append(bad, fmt.Sprintf("%v written at %s", c18Keys(ws), c.P.InstrPos(in)))
		}
	}
	if len(bad) > 0 {
		c.add("confine", rule, construct, Violated, c.P.Pos(fn.Pos()), "the dispatcher or one of its pre-checks mutates the candidate state outside a handler: "+strings.Join(bad, "; "))
		return
	}
	if n == 0 {
		c.add("confine", rule, construct, Undecided, c.P.Pos(fn.Pos()), "no writing handler call found (vacuous)")
		return
	}
	c.add("confine", rule, construct, Held, c.P.Pos(fn.Pos()), fmt.Sprintf("%d writing call(s), all to %v; every other use of the candidate state is read-only", n, allowedCallees))
}

// c18Snapshots: the rollback copies of the candidate state: calls root.Clone() and the local cells assigned
// (only) from such a call. Both map to the Clone call, which is the instant the snapshot is taken.
func c18Snapshots(fn *ssa.Function, root ssa.Value) map[ssa.Value]*ssa.Call {
	out := map[ssa.Value]*ssa.Call{}
	for _, b := range fn.Blocks {
		for _, in := range b.Instrs {
			call, ok := in.(*ssa.Call)
			if !ok || calleeName(&call.Call) != "pkg/controller/state.ClusterState.Clone" || len(call.Call.Args) != 1 {
				continue
			}
			if r, f := c18RootPath(call.Call.Args[0]); r != root || f != "" {
				continue
			}
			out[call] = call
			for _, r := range *call.Referrers() {
				st, ok := r.(*ssa.Store)
				if !ok || st.Val != ssa.Value(call) {
					continue
				}
				a, ok := st.Addr.(*ssa.Alloc)
				if !ok {
					continue
				}
				n := 0
				for _, rr := range *a.Referrers() {
					if s2, ok := rr.(*ssa.Store); ok && s2.Addr == ssa.Value(a) {
						n++
					}
				}
				if n == 1 {
					out[a] = call
				}
			}
		}
	}
	return out
}

// c18SnapOf: the Clone call a value is a snapshot of (nil if it is not a snapshot).
func c18SnapOf(v ssa.Value, snaps map[ssa.Value]*ssa.Call) *ssa.Call {
	if ld, ok := v.(*ssa.UnOp); ok && ld.Op == token.MUL {
		v = ld.X
	}
	return snaps[v]
}

// c18ChangedSites: every validateChanged call in h is validateChanged(root, snapshot, cmd), its result is
// returned directly, and no write to the candidate state can happen before the snapshot is taken.
func c18ChangedSites(c *Ctx, w *c18W, rule string, h *ssa.Function, root ssa.Value) int {
	name := c.P.Name(h)
	snaps := c18Snapshots(h, root)
	n := 0
	var problems []string
	for _, b := range h.Blocks {
		for _, in := range b.Instrs {
			call, ok := in.(*ssa.Call)
			if !ok || calleeName(&call.Call) != "pkg/controller/fsm.validateChanged" {
				continue
			}
			n++
			if r, f := c18RootPath(call.Call.Args[0]); r != root || f != "" {
				problems = append(problems, "first argument is not the candidate state: "+Path(call.Call.Args[0]))
			}
			if c18SnapOf(call.Call.Args[1], snaps) == nil {
				problems = append(problems, "rollback argument is not a local snapshot taken with next.Clone(): "+Path(call.Call.Args[1]))
			}
			if r, _ := c18RootPath(call.Call.Args[2]); r == nil {
				problems = append(problems, "command argument missing")
			} else if _, isParam := r.(*ssa.Parameter); !isParam {
				problems = append(problems, "command argument is not the handler's command parameter: "+Path(call.Call.Args[2]))
			}
			for _, r := range *call.Referrers() {
				switch r.(type) {
				case *ssa.Return, *ssa.DebugRef:
				default:
					problems = append(problems, fmt.Sprintf("result of validateChanged is not returned directly (used by %T)", r))
				}
			}
		}
	}
	if n == 0 {
		return 0
	}
	// no write before the snapshot
	isSnap := func(in ssa.Instruction) bool {
		call, ok := in.(*ssa.Call)
		return ok && snaps[call] != nil
	}
	limit := c18ReachNoBarrier(h, isSnap)
	for _, b := range h.Blocks {
		lim, ok := limit[b]
		if !ok {
			continue
		}
		for i := 0; i < lim && i < len(b.Instrs); i++ {
			if ws := w.instrWrites(b.Instrs[i], root); len(ws) > 0 {
				problems = append(problems, fmt.Sprintf("%v of the candidate state written at %s before the rollback snapshot is taken", c18Keys(ws), c.P.InstrPos(b.Instrs[i])))
			}
		}
	}
	construct := name + "#validateChanged(next, snapshot-before-writes, cmd)"
	if len(problems) > 0 {
		c.add("order", rule, construct, Violated, c.P.Pos(h.Pos()), strings.Join(dedup(problems), "; "))
	} else {
		c.add("order", rule, construct, Held, c.P.Pos(h.Pos()), fmt.Sprintf("%d validateChanged call(s): returned directly, rollback copy = next.Clone() taken before the first write", n))
	}
	return n
}

// c18ForwardFrom: instructions reachable after `start` (exclusive) without crossing one matching stop.
func c18ForwardFrom(start ssa.Instruction, stop func(ssa.Instruction) bool, visit func(ssa.Instruction)) {
	seen := map[*ssa.BasicBlock]bool{}
	var walk func(b *ssa.BasicBlock, from int)
	walk = func(b *ssa.BasicBlock, from int) {
		for i := from; i < len(b.Instrs); i++ {
			if stop != nil && stop(b.Instrs[i]) {
				return
			}
			visit(b.Instrs[i])
		}
		for _, s := range b.Succs {
			if !seen[s] {
				seen[s] = true
				walk(s, 0)
			}
		}
	}
	walk(start.Block(), indexIn(start.Block(), start)+1)
}

func c18IsRestore(in ssa.Instruction, root ssa.Value, snaps map[ssa.Value]*ssa.Call) bool {
	st, ok := in.(*ssa.Store)
	if !ok {
		return false
	}
	if r, f := c18RootPath(st.Addr); r != root || f != "" {
		return false
	}
	return c18SnapOf(st.Val, snaps) != nil
}

func c18RetCallee(in ssa.Instruction) string {
	ret, ok := in.(*ssa.Return)
	if !ok || len(ret.Results) == 0 {
		return ""
	}
	if call, ok := retOperand(ret, 0).(*ssa.Call); ok {
		return calleeName(&call.Call)
	}
	return ""
}

// c18RejectRestores: a `return reject(...)` reachable after a write to the candidate state is reached only
// through `*next = snapshot`.
func c18RejectRestores(c *Ctx, w *c18W, rule string, h *ssa.Function, root ssa.Value) {
	name := c.P.Name(h)
	snaps := c18Snapshots(h, root)
	var bad []string
	nw := 0
	for _, b := range h.Blocks {
		for _, in := range b.Instrs {
			ws := w.instrWrites(in, root)
			if len(ws) == 0 || c18IsRestore(in, root, snaps) {
				continue
			}
			nw++
			c18ForwardFrom(in, func(x ssa.Instruction) bool { return c18IsRestore(x, root, snaps) }, func(x ssa.Instruction) {
				if c18RetCallee(x) == "pkg/controller/fsm.reject" {
					bad = append(bad, fmt.Sprintf("reject at %s after write of %v at %s", c.P.InstrPos(x), c18Keys(ws), c.P.InstrPos(in)))
				}
			})
		}
	}
	construct := name + "#reject-after-write-restores"
	if len(bad) > 0 {
		c.add("order", rule, construct, Violated, c.P.Pos(h.Pos()), "a rejected command leaves the candidate state modified: "+strings.Join(dedup(bad), "; "))
		return
	}
	c.add("order", rule, construct, Held, c.P.Pos(h.Pos()), fmt.Sprintf("%d writing instruction(s); no reject return is reachable from them without *next = snapshot", nw))
}

// c18NoopCover: a `return noop(...)` reachable after writes to fields F1..Fn of the candidate state is behind
// reflect.DeepEqual(snapshot.Fi, next.Fi) == true for every i, or the field is restored from the snapshot
// in the returning block.
func c18NoopCover(c *Ctx, w *c18W, rule string, h *ssa.Function, root ssa.Value) {
	name := c.P.Name(h)
	snaps := c18Snapshots(h, root)
	written := map[ssa.Instruction]map[string]bool{} // noop return -> fields
	for _, b := range h.Blocks {
		for _, in := range b.Instrs {
			ws := w.instrWrites(in, root)
			if len(ws) == 0 {
				continue
			}
			c18ForwardFrom(in, nil, func(x ssa.Instruction) {
				if c18RetCallee(x) == "pkg/controller/fsm.noop" {
					if written[x] == nil {
						written[x] = map[string]bool{}
					}
					for k := range ws {
						written[x][k] = true
					}
				}
			})
		}
	}
	construct := name + "#noop-after-write-covers-written-fields"
	if len(written) == 0 {
		c.add("cover", rule, construct, Held, c.P.Pos(h.Pos()), "no noop return is reachable after a write to the candidate state")
		return
	}
	// equality facts: edges on which DeepEqual(snapshot.F, next.F) holds
	eqEdges := map[string]map[edge]bool{}
	for _, b := range h.Blocks {
		iff, ok := b.Instrs[len(b.Instrs)-1].(*ssa.If)
		if !ok {
			continue
		}
		call, ok := iff.Cond.(*ssa.Call)
		if !ok || calleeName(&call.Call) != "reflect.DeepEqual" || len(call.Call.Args) != 2 {
			continue
		}
		var fSnap, fNext string
		for _, a := range call.Call.Args {
			v := a
			if mi, ok := v.(*ssa.MakeInterface); ok {
				v = mi.X
			}
			r, f := c18RootPath(v)
			if snaps[r] != nil && f != "" {
				fSnap = f
			}
			if r == root {
				fNext = f
			}
		}
		if fSnap != "" && fSnap == fNext {
			if eqEdges[fSnap] == nil {
				eqEdges[fSnap] = map[edge]bool{}
			}
			eqEdges[fSnap][edge{b, 0}] = true
		}
	}
	var bad []string
	for ret, fields := range written {
		for _, f := range c18Keys(fields) {
			if f == "~normalize" {
				continue // canonicaliser: idempotent on an already-normalised state (assumption, see Explain)
			}
			if removed := eqEdges[f]; len(removed) > 0 {
				limit := reachUnguarded(h, removed, nil)
				if lim, reach := limit[ret.Block()]; !reach || indexIn(ret.Block(), ret) >= lim {
					continue
				}
			}
			// explicit restore of the field from the snapshot in the returning block
			restored := false
			for _, in := range ret.Block().Instrs {
				st, ok := in.(*ssa.Store)
				if !ok {
					continue
				}
				if r, sf := c18RootPath(st.Addr); r != root || sf != f {
					continue
				}
				if c18DependsOnSnapshotField(st.Val, snaps, f, 0) {
					restored = true
				}
			}
			if restored {
				continue
			}
			bad = append(bad, fmt.Sprintf("noop at %s although %s may have been modified and is neither compared with the snapshot nor restored", c.P.InstrPos(ret), f))
		}
	}
	if len(bad) > 0 {
		sort.Strings(bad)
		c.add("cover", rule, construct, Violated, c.P.Pos(h.Pos()), strings.Join(bad, "; "))
		return
	}
	c.add("cover", rule, construct, Held, c.P.Pos(h.Pos()), fmt.Sprintf("%d noop return(s) after writes; every written field is DeepEqual-compared with the snapshot on the way or restored from it", len(written)))
}

func c18DependsOnSnapshotField(v ssa.Value, snaps map[ssa.Value]*ssa.Call, field string, depth int) bool {
	if v == nil || depth > 6 {
		return false
	}
	if r, f := c18RootPath(v); f == field {
		if snaps[r] != nil {
			return true
		}
	}
	if in, ok := v.(ssa.Instruction); ok {
		for _, op := range in.Operands(nil) {
			if op != nil && *op != nil && c18DependsOnSnapshotField(*op, snaps, field, depth+1) {
				return true
			}
		}
	}
	return false
}

// c18WholeStores: `*next = X` in a handler is either the rollback (X = snapshot) or the init install.
func c18WholeStores(c *Ctx, rule string, h *ssa.Function, root ssa.Value) {
	name := c.P.Name(h)
	snaps := c18Snapshots(h, root)
	var bad []string
	n := 0
	for _, b := range h.Blocks {
		for _, in := range b.Instrs {
			st, ok := in.(*ssa.Store)
			if !ok {
				continue
			}
			if r, f := c18RootPath(st.Addr); r != root || f != "" {
				continue
			}
			if _, isParamSpill := st.Val.(*ssa.Parameter); isParamSpill {
				continue
			}
			n++
			if c18IsRestore(in, root, snaps) {
				continue
			}
			if name == "pkg/controller/fsm.StateMachine.applyInit" {
				continue // guarded separately (R2-changed): behind next.Revision == 0, value = initialStateFromCommand
			}
			bad = append(bad, Path(st.Val)+" at "+c.P.InstrPos(in))
		}
	}
	if n == 0 {
		return
	}
	construct := name + "#whole-state-stores"
	if len(bad) > 0 {
		c.add("confine", rule, construct, Violated, c.P.Pos(h.Pos()), "the candidate state is replaced wholesale by something that is not the rollback snapshot: "+strings.Join(bad, "; "))
		return
	}
	c.add("confine", rule, construct, Held, c.P.Pos(h.Pos()), fmt.Sprintf("%d whole-state store(s), each is the rollback snapshot (or the guarded init install)", n))
}

// ---------------------------------------------------------------------------
// R3: what is checksummed is what is saved is what is published

func c18SaveProtocol(c *Ctx, w *c18W, rule string, fn *ssa.Function) {
	name := c.P.Name(fn)
	construct := name + "#checksum(next)→next.Checksum→Save(next)→publish(next.Clone())"
	var sum, save *ssa.Call
	for _, b := range fn.Blocks {
		for _, in := range b.Instrs {
			call, ok := in.(*ssa.Call)
			if !ok {
				continue
			}
			switch calleeName(&call.Call) {
			case "pkg/controller/state.Checksum":
				sum = call
			case "pkg/controller/fsm.Store.Save":
				save = call
			}
		}
	}
	if sum == nil || save == nil {
		c.add("order", rule, construct, Undecided, c.P.Pos(fn.Pos()), "Checksum or Save call not found")
		return
	}
	var problems []string
	cand, f := c18RootPath(sum.Call.Args[0])
	if _, ok := cand.(*ssa.Alloc); !ok || f != "" {
		problems = append(problems, "Checksum is not computed over a local candidate state: "+Path(sum.Call.Args[0]))
	}
	sargs := save.Call.Args
	if r, sf := c18RootPath(sargs[len(sargs)-1]); r != cand || sf != "" {
		problems = append(problems, "Save persists "+Path(sargs[len(sargs)-1])+", the checksum was computed over "+Path(sum.Call.Args[0]))
	}
	// between Checksum and Save: exactly the store cand.Checksum = checksum, nothing else writes cand
	stored := false
	c18ForwardFrom(sum, func(x ssa.Instruction) bool { return x == ssa.Instruction(save) }, func(x ssa.Instruction) {
		ws := w.instrWrites(x, cand)
		if len(ws) == 0 {
			return
		}
		if st, ok := x.(*ssa.Store); ok && len(ws) == 1 && ws["Checksum"] {
			if ex, ok := st.Val.(*ssa.Extract); ok && ex.Tuple == ssa.Value(sum) && ex.Index == 0 {
				stored = true
				return
			}
		}
		problems = append(problems, fmt.Sprintf("%v of the candidate state written at %s after its checksum was computed and before Save", c18Keys(ws), c.P.InstrPos(x)))
	})
	if !stored {
		problems = append(problems, "the computed checksum is not stored into the state that is saved")
	} else {
		// … and on every path: Save is unreachable from Checksum without passing that store
		limit := map[*ssa.BasicBlock]bool{}
		reached := false
		c18ForwardFrom(sum, func(x ssa.Instruction) bool {
			st, ok := x.(*ssa.Store)
			if !ok {
				return false
			}
			ex, ok := st.Val.(*ssa.Extract)
			return ok && ex.Tuple == ssa.Value(sum) && ex.Index == 0
		}, func(x ssa.Instruction) {
			limit[x.Block()] = true
			if x == ssa.Instruction(save) {
				reached = true
			}
		})
		if reached {
			problems = append(problems, "Save is reachable from Checksum without storing the checksum")
		}
	}
	// publish: sm.state = Clone(cand), no write to cand between Save and publish
	np := 0
	for _, in := range instrsMatching(fn, StoreTo{Addr: "sm.state"}) {
		st := in.(*ssa.Store)
		np++
		call, ok := st.Val.(*ssa.Call)
		if !ok || calleeName(&call.Call) != "pkg/controller/state.ClusterState.Clone" {
			problems = append(problems, "published value is not a Clone: "+Path(st.Val))
			continue
		}
		if r, pf := c18RootPath(call.Call.Args[0]); r != cand || pf != "" {
			problems = append(problems, "published state is a clone of "+Path(call.Call.Args[0])+", not of the saved candidate")
		}
	}
	if np == 0 {
		problems = append(problems, "no publication of sm.state")
	}
	c18ForwardFrom(save, func(x ssa.Instruction) bool { return (StoreTo{Addr: "sm.state"}).Match(x) }, func(x ssa.Instruction) {
		if ws := w.instrWrites(x, cand); len(ws) > 0 {
			problems = append(problems, fmt.Sprintf("%v of the candidate state written at %s between Save and publication", c18Keys(ws), c.P.InstrPos(x)))
		}
	})
	if len(problems) > 0 {
		c.add("order", rule, construct, Violated, c.P.InstrPos(save), strings.Join(dedup(problems), "; "))
		return
	}
	c.add("order", rule, construct, Held, c.P.InstrPos(save), "one candidate object: checksummed, checksum stored, saved unchanged, cloned into sm.state unchanged")
}

// ---------------------------------------------------------------------------
// R4: the replay guard talks about the objects that are applied and saved

func c18ReplayIdentity(c *Ctx, rule string, fn *ssa.Function) {
	if fn == nil {
		return
	}
	construct := c.P.Name(fn) + "#replay-guard-objects"
	var apply, save *ssa.Call
	for _, b := range fn.Blocks {
		for _, in := range b.Instrs {
			if call, ok := in.(*ssa.Call); ok {
				switch calleeName(&call.Call) {
				case "pkg/controller/fsm.StateMachine.applyMutation":
					apply = call
				case "pkg/controller/fsm.Store.Save":
					save = call
				}
			}
		}
	}
	if apply == nil || save == nil {
		c.add("shape", rule, construct, Undecided, c.P.Pos(fn.Pos()), "applyMutation or Save call not found")
		return
	}
	var problems []string
	cand, _ := c18RootPath(apply.Call.Args[1])
	entry, idxField := c18RootPath(apply.Call.Args[2])
	if idxField != "Index" {
		problems = append(problems, "raft index passed to applyMutation is not entry.Index: "+Path(apply.Call.Args[2]))
	}
	for k, want := range map[int]string{3: "Term", 4: "Command"} {
		if r, f := c18RootPath(apply.Call.Args[k]); r != entry || f != want {
			problems = append(problems, fmt.Sprintf("argument %d of applyMutation is not the same entry's %s", k, want))
		}
	}
	sargs := save.Call.Args
	if r, _ := c18RootPath(sargs[len(sargs)-1]); r != cand {
		problems = append(problems, "the state handed to applyMutation is not the state that is saved")
	}
	// every Index/AppliedRaftIndex comparison in the function reads this entry and this candidate,
	// and one of them lies on the way to applyMutation
	found := false
	for _, b := range fn.Blocks {
		iff, ok := b.Instrs[len(b.Instrs)-1].(*ssa.If)
		if !ok {
			continue
		}
		cmp, ok := iff.Cond.(*ssa.BinOp)
		if !ok {
			continue
		}
		lr, lf := c18RootPath(cmp.X)
		rr, rf := c18RootPath(cmp.Y)
		if lf == "AppliedRaftIndex" && rf == "Index" {
			lr, lf, rr, rf = rr, rf, lr, lf
		}
		if lf != "Index" || rf != "AppliedRaftIndex" {
			continue
		}
		if lr != entry || rr != cand {
			problems = append(problems, "a replay comparison at "+c.P.InstrPos(iff)+" is not between this entry's Index and the candidate's AppliedRaftIndex")
			continue
		}
		if c18Reaches(b, apply.Block()) {
			found = true
		}
	}
	if !found {
		problems = append(problems, "no comparison of entry.Index with next.AppliedRaftIndex on the way to applyMutation")
	}
	// the candidate is a clone chain of sm.state taken under the lock
	if len(problems) > 0 {
		c.add("shape", rule, construct, Violated, c.P.InstrPos(apply), strings.Join(dedup(problems), "; "))
		return
	}
	c.add("shape", rule, construct, Held, c.P.InstrPos(apply), "applyMutation(next, entry.Index, entry.Term, entry.Command) on the candidate that is later saved; the replay comparison reads the same entry and candidate")
}

// c18Reaches: to is reachable from from in the CFG.
func c18Reaches(from, to *ssa.BasicBlock) bool {
	seen := map[*ssa.BasicBlock]bool{from: true}
	work := []*ssa.BasicBlock{from}
	for len(work) > 0 {
		x := work[len(work)-1]
		work = work[:len(work)-1]
		if x == to {
			return true
		}
		for _, s := range x.Succs {
			if !seen[s] {
				seen[s] = true
				work = append(work, s)
			}
		}
	}
	return false
}

// ---------------------------------------------------------------------------
// R5: each Kind constant dispatches to a handler

func c18Arms(c *Ctx, rule string, fn *ssa.Function, pkg, typeName, handlerGlob string) {
	consts := c.constsOfType(pkg, typeName, "Kind")
	construct := c.P.Name(fn) + "#every-kind-reaches-a-handler"
	if len(consts) == 0 {
		c.add("exhaust", rule, construct, Undecided, c.P.Pos(fn.Pos()), "no Kind constants resolved")
		return
	}
	handled := map[string]string{}
	for _, b := range fn.Blocks {
		iff, ok := b.Instrs[len(b.Instrs)-1].(*ssa.If)
		if !ok {
			continue
		}
		cmp, ok := iff.Cond.(*ssa.BinOp)
		if !ok || cmp.Op != token.EQL {
			continue
		}
		var k *ssa.Const
		if x, ok := cmp.Y.(*ssa.Const); ok {
			k = x
		} else if x, ok := cmp.X.(*ssa.Const); ok {
			k = x
		}
		if k == nil || k.Value == nil || typeBaseName(k.Type()) != typeName || k.Value.Kind() != constant.String {
			continue
		}
		// the case body: follow the true edge through straight-line blocks
		body := b.Succs[0]
		for hops := 0; hops < 4 && body != nil; hops++ {
			for _, in := range body.Instrs {
				if ci, ok := in.(ssa.CallInstruction); ok && glob(handlerGlob, calleeName(ci.Common())) {
					handled[k.Value.ExactString()] = calleeName(ci.Common())
				}
			}
			if len(body.Succs) != 1 || handled[k.Value.ExactString()] != "" {
				break
			}
			body = body.Succs[0]
		}
	}
	var missing []string
	seenHandlers := map[string]string{}
	var dup []string
	for n, v := range consts {
		h := handled[v.ExactString()]
		if h == "" {
			missing = append(missing, n)
			continue
		}
		if other, ok := seenHandlers[h]; ok {
			dup = append(dup, fmt.Sprintf("%s and %s both dispatch to %s", other, n, h))
		}
		seenHandlers[h] = n
	}
	sort.Strings(missing)
	sort.Strings(dup)
	switch {
	case len(missing) > 0:
		c.add("exhaust", rule, construct, Violated, c.P.Pos(fn.Pos()), fmt.Sprintf("command kind(s) %v have no case arm that calls a handler %s", missing, handlerGlob))
	case len(dup) > 0:
		c.add("exhaust", rule, construct, Violated, c.P.Pos(fn.Pos()), "two kinds share one handler: "+strings.Join(dup, "; "))
	default:
		c.add("exhaust", rule, construct, Held, c.P.Pos(fn.Pos()), fmt.Sprintf("%d kinds, each with its own case arm calling a distinct handler", len(consts)))
	}
}
