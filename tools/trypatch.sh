#!/bin/bash
# usage: trypatch.sh <patch.diff> <property> [more properties]  — applies the patch in the scratch worktree /tmp/wt-try, runs the checks against it, reverts.
p=$1; shift
wt=/tmp/wt-try
[ -d $wt ] || git -C /repo worktree add --detach $wt HEAD >/dev/null 2>&1
git -C $wt checkout -q --detach $(git -C /repo rev-parse HEAD) 2>/dev/null
git -C $wt checkout -- . ; git -C $wt clean -fdq
if ! git -C $wt apply "$p"; then echo "PATCH DOES NOT APPLY: $p"; exit 2; fi
for id in "$@"; do
  VERIF_DIR=/tmp/try-out /verif/bin/wkcheck --repo $wt --property $id 2>&1 | grep -v "^VIOLATION" | cut -c1-600
done
git -C $wt checkout -- . ; git -C $wt clean -fdq
