#!/bin/bash
# usage: seedprompt.sh C01  -> creates worktree /tmp/wt-C01 and prints the prompt for a seeding sub-agent
id=$1
wt=/tmp/wt-$id
out=/tmp/seed-$id
[ -d $wt ] || git -C /repo worktree add --detach $wt HEAD >/dev/null 2>&1
mkdir -p $out
prop=$(grep "\"id\": *\"$id\"" /verif/properties.jsonl || jq -c "select(.id==\"$id\")" /verif/properties.jsonl)
cat <<P
You are working alone in a scratch git worktree of the WuKongIM repository (a distributed instant-messaging server written in Go) at $wt. The sandbox has no network; the module builds and tests offline with the plain \`go\` command (e.g. \`cd $wt && go build ./... && go test -count=1 ./pkg/some/package/...\`). Work ONLY inside $wt and $out. Never read or write /repo or /verif. Do NOT use \`git stash\` (the stash is shared with other worktrees of the same repository): to set a change aside use \`git diff > file && git checkout -- .\` and \`git apply file\`.

Here is a semantic property that the repository is supposed to satisfy (JSON record):

$prop

YOUR TASK: act as a bug-seeder. Produce changes to the NON-TEST source code that BREAK this property, where each change
  (a) still compiles (\`go build ./...\` succeeds),
  (b) leaves every EXISTING test passing (run \`go test -count=1\` on every package you touched plus the packages that obviously exercise it; do not edit or delete existing tests),
  (c) looks like a realistic regression a developer could plausibly introduce (a dropped or weakened check, wrong comparison operator, reordered steps, a missing field, a lost error, a wrong lock scope, an early publish ...), is small (roughly 1-20 changed lines), and
  (d) needs something SPECIFIC to manifest: a particular interleaving, a crash or fault at a particular point, a multi-step sequence of operations, an unusual input, or two cooperating sites that each look fine alone - NOT something ordinary use would expose at once.
For each change also write a DEMONSTRATION: a new Go test file (or small program) that FAILS with the change applied and PASSES on the unmodified tree. If a faithful demonstration genuinely needs a crash/interleaving that you cannot script, demonstrate the broken intermediate effect as directly as you can (e.g. call the internal function in the sequence that exposes it).

Please produce up to THREE independent changes, at different code sites / mechanisms of the property (different functions, ideally different files). Quality over quantity: one confirmed change is better than three unconfirmed ones.

DELIVERABLES, one directory per change: $out/a/, $out/b/, $out/c/ each containing
  - patch.diff : output of \`git diff\` for the source change ONLY (must apply with \`git apply\` at the repo root of a clean checkout)
  - the demonstration file(s), plus DEMO_PATH.txt saying where each demo file must be placed in the tree (e.g. pkg/db/message/seed_demo_test.go) and the exact \`go test -run ...\` command to run it
  - NOTES.md : which clause of the property it breaks, what it needs in order to manifest, and the exact commands you ran with their results (existing tests pass WITH the patch; demo FAILS with the patch; demo PASSES without it).
When finished, leave $wt clean (\`git checkout -- . && git clean -fd\`) - I will re-apply your patches myself. In your final message, list for each change: the files/functions touched, one sentence on the bug, and whether you confirmed (b) and the demo both ways.
P
