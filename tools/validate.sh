#!/bin/bash
# validates MANIFEST.json and every evidence file against the harness schemas
python3-vt - <<'PY'
import json,jsonschema,glob
jsonschema.validate(json.load(open('/verif/MANIFEST.json')), json.load(open('/root/.vp/MANIFEST.schema.json')))
n=0
for f in glob.glob('/verif/evidence/*.json'):
    jsonschema.validate(json.load(open(f)), json.load(open('/root/.vp/EVIDENCE.schema.json'))); n+=1
print('manifest ok; evidence files ok:', n)
PY
