#!/bin/bash
# runs every filed behaviour-preserving refactoring (refactored/<id>-<x>/patch.diff) through its property's check; prints a tally
for id in $(ls /verif/refactored | grep -o '^C[0-9]*' | sort -u); do /verif/tools/tryrefac.sh $id 2>&1 | grep -v "^      "; done | tee /tmp/refac-all.out | grep -c silent
grep -v silent /tmp/refac-all.out
