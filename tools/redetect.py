#!/usr/bin/env python3
"""Re-runs the registered checks against every filed seeded change (in the scratch worktree
/tmp/wt-try, never in /repo) with the current checker and updates meta.json 'detected_by'."""
import glob, json, os, subprocess, sys
V = "/verif"
wt = "/tmp/wt-try"
head = subprocess.check_output("git -C /repo rev-parse HEAD", shell=True, text=True).strip()
if not os.path.isdir(wt):
    subprocess.run(f"git -C /repo worktree add --detach {wt} HEAD", shell=True)
only = set(sys.argv[1:])
for f in sorted(glob.glob(f"{V}/seeded/*/meta.json")):
    m = json.load(open(f))
    if only and m["seed"] not in only and m["property"] not in only:
        continue
    d = os.path.dirname(f)
    subprocess.run(f"git -C {wt} checkout -q --detach {head}; git -C {wt} checkout -- .; git -C {wt} clean -fdq", shell=True)
    r = subprocess.run(f"git -C {wt} apply {d}/patch.diff", shell=True, capture_output=True, text=True)
    if r.returncode != 0:
        print(m["seed"], "PATCH NO LONGER APPLIES at", head[:9], r.stderr.strip()[:200])
        m["applies_at_head"] = False
        json.dump(m, open(f, "w"), indent=1)
        continue
    m["applies_at_head"] = True
    checks = list((m.get("detected_by") or {m["property"]: []}).keys()) or [m["property"]]
    fired = {}
    for cid in checks:
        out = subprocess.run(f"VERIF_DIR=/tmp/try-out {V}/bin/wkcheck --repo {wt} --property {cid}", shell=True, capture_output=True, text=True).stdout
        fired[cid] = [l.strip() for l in out.splitlines() if l.strip().startswith(("violated:", "undecided:"))]
    m["detected_by"] = fired
    m["detected"] = any(fired.values())
    m["detection_checked_at_repo_head"] = head
    json.dump(m, open(f, "w"), indent=1)
    print(m["seed"], "detected" if m["detected"] else "MISSED", sum(len(v) for v in fired.values()))
subprocess.run(f"git -C {wt} checkout -- .; git -C {wt} clean -fdq", shell=True)
