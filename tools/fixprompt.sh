#!/bin/bash
# usage: fixprompt.sh <group> Cnn/x [Cmm/y ...]  -> working copy /tmp/wkx-<group> + prompt on stdout
g=$1; shift
d=/tmp/wkx-$g
rm -rf $d; mkdir -p $d/out $d/seeds
cp -r /verif/wkcheck $d/wkcheck
cp /verif/known_findings.json $d/out/
git -C /repo worktree remove --force $d/repo 2>/dev/null
git -C /repo worktree add --detach $d/repo HEAD >/dev/null 2>&1
ids=""
for s in "$@"; do
  id=${s%/*}; x=${s#*/}
  mkdir -p $d/seeds/$id-$x
  cp /tmp/seed-$id/$x/patch.diff /tmp/seed-$id/$x/NOTES.md $d/seeds/$id-$x/ 2>/dev/null
  jq -c "select(.id==\"$id\")" /verif/properties.jsonl | jq . > $d/property_$id.json
  ids="$ids $id-$x"
done
cat <<P
You are extending a repository-specific STATIC ANALYSER ("wkcheck", Go, built on go/ssa) that decides structural clauses of semantic properties of the WuKongIM server. The server source is at /repo (READ-ONLY for you: never modify it, never run git there). You also have a private scratch checkout of the same commit at $d/repo which you MAY modify (apply/revert patches there only). Never touch /verif.

Your working directory is $d:
  - wkcheck/            private copy of the analyser: engines (core.go guard.go confine.go order.go lockset.go mono.go cover.go flow.go decodesafe.go lenfacts.go wire.go wire_seq.go determ.go atomic.go render.go ...), one rule table per property props_cNN.go, and zz_ext.go which shows how extra rules are ADDED to an existing property with extend(id, pkgs, run, mutants...).
  - wkcheck/AUTHORING.md  how rule tables are written, how to dump a function in matcher vocabulary, how mutants work. READ IT FIRST.
  - property_<ID>.json  the property records concerned.
  - seeds/<ID>-<x>/patch.diff + NOTES.md : independently seeded BUGS (each breaks the property, compiles, passes the existing tests) that the CURRENT rule table of that property does NOT detect:$ids

YOUR TASK: for each seeded bug, add rules that detect it - stated as the GENERAL structural clause the bug violates (the kind of rule that would also catch sibling bugs at the same mechanism: e.g. "every store of X is behind guard G", "the value passed is the one read before the update", "the decision uses the same bound as the read"), not a rule that pattern-matches this one patch. Put ALL new code in ONE new file wkcheck/zz_ext_<lowercase id>.go per property (e.g. zz_ext_c14.go) with an init() that calls extend("C14", extraPkgs, func(c *Ctx){...}, mutants...). Prefix helper names with x<id> (e.g. xc14Foo). Do not edit any existing file. Requirements:
  1. SILENT on the unmodified tree: \`VERIF_DIR=$d/out $d/wk --property <ID>\` → violations=0 (known findings for C10 are listed in out/known_findings.json and are expected as KNOWN-FINDING lines only).
  2. FIRES on the seeded bug: apply the patch in the scratch checkout (\`git -C $d/repo apply seeds/<ID>-<x>/patch.diff\`), run \`VERIF_DIR=$d/out $d/wk --repo $d/repo --property <ID>\` → at least one of YOUR new obligations is violated; then revert (\`git -C $d/repo checkout -- .\`).
  3. Add at least 2 Mutants per new rule (in-memory textual edits, see AUTHORING.md): one equivalent to the seeded bug and at least one DIFFERENT plausible bug at the same mechanism that the rule should also catch; confirm with \`--selftest\` that they fire (ignore unrelated mutants).
  4. ROBUST: must not depend on local variable names that are not parameters, on source text or line numbers; a behaviour-preserving refactor (renaming a local, adding logging or an unrelated early return) must not fire it. If the clause is genuinely not decidable statically in a sound way (e.g. it is an arithmetic or iterator-behaviour property), say so and do NOT add a brittle proxy - an honest "not decidable here, because ..." in your report is an acceptable outcome for that seed.
Build/run: cd $d/wkcheck && export PATH=/opt/veriftools/go1.26.8/bin:\$PATH GOTOOLCHAIN=local GOFLAGS=-mod=mod GOPROXY=off GOWORK=off && go build -o $d/wk . ; dump functions with \`$d/wk --pkgs './pkg/x' --dump 'pkg/x.Type.Method'\`.

Final report (concise): per seed - the clause you encoded, the new obligation keys, that it is silent on the clean tree and fires on the patch, the mutants and their self-test result; or why it is not decidable. Deliverables: $d/wkcheck/zz_ext_<id>.go files.
P
