#!/bin/bash
# usage: refactorprompt.sh C01 -> creates worktree /tmp/rf-C01 and prints the prompt for a refactoring sub-agent
# (the complement of seedprompt.sh: behaviour-PRESERVING edits, used to measure false alarms)
id=$1
wt=/tmp/rf-$id
out=/tmp/refac-$id
[ -d $wt ] || git -C /repo worktree add --detach $wt HEAD >/dev/null 2>&1
mkdir -p $out
prop=$(jq -c "select(.id==\"$id\")" /verif/properties.jsonl)
cat <<P
You are working alone in a scratch git worktree of the WuKongIM repository (a distributed instant-messaging server written in Go) at $wt. The sandbox has no network; the module builds and tests offline with the plain \`go\` command (e.g. \`cd $wt && go build ./... && go test -count=1 -p 2 ./pkg/some/package/...\`; the machine is shared - always pass \`-p 2\` to go test and test only the packages you touched). Work ONLY inside $wt and $out. Never read or write /repo or /verif. Do NOT use \`git stash\` (it is shared between worktrees): to set a change aside use \`git diff > file && git checkout -- .\`.

Here is a semantic property that the repository satisfies (JSON record):

$prop

YOUR TASK: act as a careful maintainer doing routine clean-up. Produce SIX independent BEHAVIOUR-PRESERVING refactorings of the NON-TEST code that implements this property (the functions named or implied by the anchors: the guards, the stores, the loops, the encode/decode pairs, the locking). After each refactoring the property must STILL HOLD exactly as before - you are not allowed to change what the code does for any input, schedule or crash point, only how it is written. Each refactoring must compile (\`go build ./...\`) and pass the existing tests of every package it touches (\`go test -count=1 <pkgs>\`).

Hard constraints for all six: do not rename, remove or change the signature of any function, method, type, struct field, package-level variable or constant (exported or not) - other code and tools refer to them by name; do not move code to a different file or package; do not edit tests. Everything else inside function bodies is fair game.

Make the six of graded intrusiveness (${RF_LEVELS:-two per level}), each touching the property's core mechanism (not a peripheral helper) and each in a DIFFERENT core function where the property has several:
  Level 1 (a, b) - cosmetic inside a body: rename local variables (not parameters), introduce or remove a temporary for a sub-expression, reorder two statements that are independent of each other, add a comment, add a debug log line or a metrics counter increment on some branch, replace \`x += 1\` by \`x++\`, \`len(s) == 0\` by \`len(s) < 1\` for an int, etc.
  Level 2 (c, d) - reshape control flow inside one function without changing its decisions: turn if/else into early return or the reverse, invert a condition and swap the branches, split \`if a && b\` into nested ifs or merge nested ifs, switch <-> if-chain, \`for i := range\` <-> classic three-clause loop, hoist a loop-invariant computation, replace \`defer mu.Unlock()\` by explicit unlocks on every path or the reverse (only when exactly equivalent), use a named result.
  Level 3 (e, f) - move code across a function boundary while keeping every existing function: extract a block of one of the core functions into a NEW unexported helper in the same file (e.g. the validation prefix into \`func validateX(...) error\`, or a loop body into a helper) and call it, or inline an existing small helper's body at one of its call sites (keeping the helper itself for its other callers).

DELIVERABLES, one directory per refactoring: $out/a/ ... $out/f/ each with
  - patch.diff : output of \`git diff\` (must apply with \`git apply\` at the root of a clean checkout of the same commit)
  - NOTES.md : level, which functions were touched, one or two sentences on why behaviour is unchanged, and the exact build/test commands you ran with their results.
Produce each against a CLEAN tree (revert before starting the next: \`git checkout -- . && git clean -fd\`), so the six patches are independent. When finished leave $wt clean. In your final message list, per refactoring: level, functions touched, what was reshaped, and that build + tests passed.
P
