#!/bin/bash
# Refactoring + bug: applies a filed behaviour-preserving refactoring AND a one-line bug on top of it in a scratch worktree,
# then runs the property's check: it must FIRE. Guards the robustness machinery (helpers seen through, merged conditions
# threaded, temporaries transparent, strict comparison split, merged returns) against accepting broken code.
wt=/tmp/wt-adv
[ -d $wt ] || git -C /repo worktree add --detach $wt HEAD >/dev/null 2>&1
adv() { # name prop refactoring file sed-expr
  name=$1; prop=$2; patch=/verif/refactored/$3/patch.diff; file=$4; expr=$5
  git -C $wt checkout -q -- . ; git -C $wt clean -fdq
  git -C $wt apply $patch || { echo "$name: refactoring patch does not apply"; return; }
  cp $wt/$file /tmp/adv-before.go
  sed -i "$expr" $wt/$file
  if cmp -s /tmp/adv-before.go $wt/$file; then echo "$name: STALE (mutation did not change the file)"; return; fi
  if ! (cd $wt && go build ./$(dirname $file)/ >/dev/null 2>&1); then echo "$name: STALE (does not compile)"; return; fi
  n=$(VERIF_DIR=/tmp/try-out /verif/bin/wkcheck --repo $wt --property $prop 2>&1 | grep -c "^  violated:\|^  undecided:")
  if [ "$n" -gt 0 ]; then echo "$name ($prop): fired=$n"; else echo "$name ($prop): MISSED"; fi
}
adv helper-guard-drops-err-check C01 C01-e pkg/channel/replication/recovery_repair.go 's/|| !replaced\[0\].Outcome.Durable() || replaced\[0\].Err != nil || replaced\[0\].LastOffset != wantLast {/|| !replaced[0].Outcome.Durable() || replaced[0].LastOffset != wantLast {/'
adv merged-error-commit-result-ignored C09 C09-d pkg/db/message/append.go 's/err = batch.Commit(true)/_ = batch.Commit(true)/'
adv strict-split-stale-test-dropped C15 C15-d pkg/db/meta/table_runtime_meta.go 's/if candidate.LeaderEpoch < existing.LeaderEpoch {/if candidate.LeaderEpoch < 0 {/'
adv merged-return-validation-ignored C25 C25-d pkg/gateway/protocol/wkproto/adapter.go 's/if err := wkprotoenc.ValidateSendPacket(send, keys); err != nil {/if err := wkprotoenc.ValidateSendPacket(send, keys); err != nil \&\& false {/'
adv temporary-wrong-quorum-position C06 C06-a pkg/channel/machine/progress.go 's/quorumPos := s.MinISR - 1/quorumPos := s.MinISR - 2/'
adv helper-effect-publish-after-failed-commit C09 C09-e pkg/db/internal/commit/coordinator.go '/Outcome: OutcomeUnknown, Err: err})$/{n;d}'
git -C /repo worktree remove --force $wt >/dev/null 2>&1
