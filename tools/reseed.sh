#!/bin/bash
# usage: reseed.sh [ids...] — re-tries every seeded change under /tmp/seed-<id>/<x>/patch.diff (or /verif/seeded/<id>-<x>/patch.diff
# when the /tmp copy is gone) against the current checks, in its own worktree /tmp/wt-reseed; prints fired counts.
wt=/tmp/wt-reseed
[ -d $wt ] || git -C /repo worktree add --detach $wt HEAD >/dev/null 2>&1
git -C $wt checkout -q --detach $(git -C /repo rev-parse HEAD) 2>/dev/null
ids="$@"; [ -z "$ids" ] && ids=$(ls /verif/seeded | grep -o '^C[0-9]*' | sort -u; ls -d /tmp/seed-C* 2>/dev/null | sed 's#/tmp/seed-##' | sort -u)
for id in $(echo $ids | tr ' ' '\n' | sort -u); do
  for x in a b c; do
    p=/tmp/seed-$id/$x/patch.diff; [ -f $p ] || p=/verif/seeded/$id-$x/patch.diff; [ -f $p ] || continue
    git -C $wt checkout -- . ; git -C $wt clean -fdq
    if ! git -C $wt apply $p 2>/dev/null; then echo "$id/$x DOES-NOT-APPLY"; continue; fi
    n=$(VERIF_DIR=/tmp/try-out /verif/bin/wkcheck --repo $wt --property $id 2>&1 | grep -c "^  violated:\|^  undecided:")
    echo "$id/$x fired=$n"
  done
done
git -C $wt checkout -- . ; git -C $wt clean -fdq
