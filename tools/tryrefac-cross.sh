#!/bin/bash
# For every filed refactoring patch: run the checks of ALL properties whose quick package set contains a package the
# patch touches (not only the property the patch was written for). Every alarm is a false alarm.
wt=/tmp/wt-refac
[ -d $wt ] || git -C /repo worktree add --detach $wt HEAD >/dev/null 2>&1
/verif/bin/wkcheck --list > /tmp/wk-list.txt
for d in /verif/refactored/*/; do
  name=$(basename $d); own=${name%-*}
  [ -f $d/patch.diff ] || continue
  dirs=$(grep '^+++ b/' $d/patch.diff | sed 's#^+++ b/##; s#/[^/]*$##' | sort -u)
  props=""
  for dir in $dirs; do
    props="$props $(grep -F "./$dir" /tmp/wk-list.txt | grep -E "\./$dir[] ]" | cut -d' ' -f1)"
  done
  props=$(echo $props | tr ' ' '\n' | sort -u | grep -v "^$own$" | tr '\n' ' ')
  [ -z "$props" ] && continue
  git -C $wt checkout -q --detach $(git -C /repo rev-parse HEAD) 2>/dev/null
  git -C $wt checkout -- . ; git -C $wt clean -fdq
  git -C $wt apply $d/patch.diff 2>/dev/null || { echo "$name PATCH-DOES-NOT-APPLY"; continue; }
  for p in $props; do
    out=$(VERIF_DIR=/tmp/try-out /verif/bin/wkcheck --repo $wt --property $p 2>&1)
    n=$(echo "$out" | grep -c "^VIOLATION")
    if [ "$n" = 0 ]; then echo "$name $p silent"; else echo "$name $p FALSE-ALARM x$n"; echo "$out" | grep -A2 "^  violated:\|^  undecided:" | cut -c1-400 | sed 's/^/      /'; fi
  done
done
git -C $wt checkout -- . ; git -C $wt clean -fdq
