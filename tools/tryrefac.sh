#!/bin/bash
# usage: tryrefac.sh C01 [more props to run]  — applies each behaviour-preserving patch /tmp/refac-<id>/<x>/patch.diff in /tmp/wt-try,
# runs the property's check (and any further ones named) and prints alarms: every alarm here is a FALSE alarm.
id=$1; shift
props="$id $@"
wt=/tmp/wt-refac
[ -d $wt ] || git -C /repo worktree add --detach $wt HEAD >/dev/null 2>&1
dirs=$(ls -d /tmp/refac-$id/*/ 2>/dev/null); [ -z "$dirs" ] && dirs=$(ls -d /verif/refactored/$id-*/ 2>/dev/null)
for d in $dirs; do
  x=$(basename $d); x=${x#$id-}
  [ -f $d/patch.diff ] || continue
  git -C $wt checkout -q --detach $(git -C /repo rev-parse HEAD) 2>/dev/null
  git -C $wt checkout -- . ; git -C $wt clean -fdq
  if ! git -C $wt apply $d/patch.diff 2>/dev/null; then echo "$id/$x PATCH-DOES-NOT-APPLY"; continue; fi
  for p in $props; do
    out=$(VERIF_DIR=/tmp/try-out /verif/bin/wkcheck --repo $wt --property $p 2>&1)
    n=$(echo "$out" | grep -c "^VIOLATION")
    if [ "$n" = 0 ]; then echo "$id/$x $p silent"; else echo "$id/$x $p FALSE-ALARM x$n"; echo "$out" | grep -A2 "^  violated:\|^  undecided:" | cut -c1-420 | sed 's/^/      /'; fi
  done
done
git -C $wt checkout -- . ; git -C $wt clean -fdq
