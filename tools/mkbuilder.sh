#!/bin/bash
# usage: mkbuilder.sh <group> C01 C03 ...  -> working copy /tmp/wk-<group> with checker sources, design excerpts, properties
g=$1; shift
d=/tmp/wk-$g
rm -rf $d; mkdir -p $d/out
cp -r /verif/wkcheck $d/wkcheck
cp /verif/wkcheck/AUTHORING.md $d/
for id in "$@"; do
  jq -c "select(.id==\"$id\")" /verif/properties.jsonl | jq . > $d/property_$id.json
  awk -v id="$id" '/^### C[0-9]+ /{p=($2==id)} /^---------/{p=0} /^## 6\./{p=0} p' /verif/DESIGN.md > $d/design_$id.md
done
sed -n '/^## 3. Rule templates/,/^## 4. Obligations/p' /verif/DESIGN.md > $d/design_engines.md
echo $d
