#!/usr/bin/env python3
"""Confirms a seeded change in a scratch worktree and files it under /verif/seeded/<id>-<letter>/.

usage: confirmseed.py <Cnn> <letter> [--tests "./pkg/a/... ./pkg/b/..."] [--checks "Cnn Cmm"]

Steps (all in /tmp/wt-confirm, a git worktree of /repo at HEAD; never in /repo):
  1. apply patch.diff; go build ./...
  2. place the demo file(s) (DEMO_PATH.txt 'Place at:' lines), run the demo -> must FAIL
  3. run the existing tests of the packages touched by the patch (+ --tests) -> must PASS (demo files removed)
  4. revert the patch, run the demo -> must PASS
  5. run the registered checks (wkcheck --repo worktree) on the patched tree -> record which obligations fire
Writes seeded/<id>-<letter>/{patch.diff, demo files, meta.json}.
"""
import json, os, re, shutil, subprocess, sys, time

def sh(cmd, cwd=None, timeout=3000):
    p = subprocess.run(cmd, shell=True, cwd=cwd, stdout=subprocess.PIPE, stderr=subprocess.STDOUT, text=True, timeout=timeout)
    return p.returncode, p.stdout

def main():
    pid, letter = sys.argv[1], sys.argv[2]
    extra_tests, checks = "", pid
    args = sys.argv[3:]
    while args:
        a = args.pop(0)
        if a == "--tests": extra_tests = args.pop(0)
        elif a == "--checks": checks = args.pop(0)
    src = f"/tmp/seed-{pid}/{letter}"
    wt = "/tmp/wt-confirm"
    head = subprocess.check_output("git -C /repo rev-parse HEAD", shell=True, text=True).strip()
    if not os.path.isdir(wt):
        sh(f"git -C /repo worktree add --detach {wt} HEAD")
    sh(f"git -C {wt} checkout -q --detach {head}; git -C {wt} checkout -- .; git -C {wt} clean -fdq")
    meta = {"property": pid, "seed": f"{pid}-{letter}", "repo_head": head, "ran": []}
    notes = open(f"{src}/NOTES.md").read() if os.path.exists(f"{src}/NOTES.md") else ""
    dp = open(f"{src}/DEMO_PATH.txt").read()
    places = re.findall(r"(?:Place at|place at|->|→)\s*:?\s*([\w./-]+_test\.go|[\w./-]+\.go)", dp)
    demos = [f for f in os.listdir(src) if f.endswith(".go")]
    run = re.search(r"go test[^\n]*", dp)
    if not run:
        print("cannot parse run command from DEMO_PATH.txt"); print(dp); sys.exit(2)
    runcmd = run.group(0).strip().rstrip("`")
    # map demo files to destinations
    dest = {}
    for d in demos:
        cands = [p for p in places if os.path.basename(p) == d]
        if cands: dest[d] = cands[0]
    if len(dest) != len(demos):
        # fall back: all demos go to the directory of the package in the run command
        m = re.search(r"(\./[\w./-]+)/?\s*$", runcmd)
        for d in demos:
            if d not in dest and m:
                dest[d] = os.path.join(m.group(1).lstrip("./"), d)
    print("demo placement:", dest); print("run:", runcmd)
    def place():
        for d, p in dest.items():
            os.makedirs(os.path.dirname(f"{wt}/{p}"), exist_ok=True)
            shutil.copy(f"{src}/{d}", f"{wt}/{p}")
    def unplace():
        for d, p in dest.items():
            try: os.remove(f"{wt}/{p}")
            except FileNotFoundError: pass
    rc, out = sh(f"git -C {wt} apply {src}/patch.diff")
    if rc != 0:
        print("PATCH DOES NOT APPLY\n", out); sys.exit(2)
    rc, out = sh("go build ./...", cwd=wt)
    meta["ran"].append({"cmd": "go build ./... (patched)", "rc": rc})
    if rc != 0:
        print("BUILD FAILS with patch\n", out[-2000:]); sys.exit(2)
    touched = subprocess.check_output(f"git -C {wt} diff --name-only", shell=True, text=True).split()
    pkgs = sorted({"./" + os.path.dirname(f) for f in touched if f.endswith(".go")})
    place()
    rc_demo_patched, out = sh(runcmd, cwd=wt)
    meta["ran"].append({"cmd": runcmd + " (patched)", "rc": rc_demo_patched, "tail": out[-600:]})
    unplace()
    testcmd = "go test -count=1 " + " ".join(pkgs) + " " + extra_tests
    ok_existing = False
    for attempt in range(3):
        rc_exist, out = sh(testcmd, cwd=wt, timeout=3000)
        meta["ran"].append({"cmd": testcmd + f" (patched, attempt {attempt+1})", "rc": rc_exist, "tail": out[-800:]})
        if rc_exist == 0:
            ok_existing = True; break
    # checks on the patched tree
    fired = {}
    for cid in checks.split():
        rc, out = sh(f"VERIF_DIR=/tmp/try-out /verif/bin/wkcheck --repo {wt} --property {cid}")
        fired[cid] = [l.strip() for l in out.splitlines() if l.strip().startswith(("violated:", "undecided:"))]
    sh(f"git -C {wt} checkout -- .")
    place()
    rc_demo_clean, out = sh(runcmd, cwd=wt)
    meta["ran"].append({"cmd": runcmd + " (unpatched)", "rc": rc_demo_clean, "tail": out[-400:]})
    unplace()
    sh(f"git -C {wt} checkout -- .; git -C {wt} clean -fdq")
    confirmed = rc_demo_patched != 0 and rc_demo_clean == 0 and ok_existing
    meta.update({
        "confirmed": confirmed,
        "demo_fails_with_patch": rc_demo_patched != 0,
        "demo_passes_without_patch": rc_demo_clean == 0,
        "existing_tests_pass_with_patch": ok_existing,
        "touched_files": touched,
        "demo_files": dest,
        "demo_cmd": runcmd,
        "detected_by": {k: v for k, v in fired.items()},
        "detected": any(fired.values()),
        "needs_to_manifest": "see NOTES.md (written by the seeding agent)",
    })
    print(json.dumps({k: meta[k] for k in ("confirmed", "demo_fails_with_patch", "demo_passes_without_patch", "existing_tests_pass_with_patch", "detected")}, indent=1))
    for k, v in fired.items():
        for l in v[:4]: print("  ", k, l[:200])
    if confirmed:
        out = f"/verif/seeded/{pid}-{letter}"
        os.makedirs(out, exist_ok=True)
        shutil.copy(f"{src}/patch.diff", out)
        for d in demos: shutil.copy(f"{src}/{d}", out + "/" + d + ".txt")
        if notes: open(out + "/NOTES.md", "w").write(notes)
        shutil.copy(f"{src}/DEMO_PATH.txt", out)
        json.dump(meta, open(out + "/meta.json", "w"), indent=1)
        print("filed under", out)
    else:
        print("NOT CONFIRMED; nothing filed")

main()
