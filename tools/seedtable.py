#!/usr/bin/env python3
"""Writes seeded/README.md: one row per confirmed seeded change, from seeded/*/meta.json."""
import glob, json, os
V = os.path.dirname(os.path.dirname(os.path.abspath(__file__)))
rows = []
for f in sorted(glob.glob(os.path.join(V, "seeded", "*", "meta.json"))):
    m = json.load(open(f))
    fired = []
    for prop, lines in (m.get("detected_by") or {}).items():
        for l in lines:
            key = l.split(": ", 1)[-1]
            fired.append(key)
    note = m.get("summary") or ""
    rows.append((m["seed"], m["property"], ", ".join(m.get("touched_files", [])), "yes" if m.get("detected") else "NO", "; ".join(k[:110] for k in fired[:3]), note))
out = ["# Seeded changes", "",
       "Each directory holds `patch.diff` (the change, never committed to /repo), the demonstration (`*.go.txt`, placed per `DEMO_PATH.txt`), the seeding agent's `NOTES.md` (what it breaks, what it needs to manifest) and `meta.json` (what was run to confirm it: build, existing tests pass with the patch, demonstration fails with it and passes without, and which obligations of which check fire on the patched tree).", "",
       "| seed | property | files touched | detected | obligations that fire (first 3) | note |", "| --- | --- | --- | --- | --- | --- |"]
for r in rows:
    out.append("| " + " | ".join(x.replace("|", "\\|") for x in r) + " |")
det = sum(1 for r in rows if r[3] == "yes")
out += ["", f"{len(rows)} confirmed seeded changes, {det} detected by the registered checks."]
open(os.path.join(V, "seeded", "README.md"), "w").write("\n".join(out) + "\n")
print(f"{len(rows)} seeds, {det} detected")
