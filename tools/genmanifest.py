#!/usr/bin/env python3
"""Regenerates /verif/MANIFEST.json from the checker's own registry (bin/wkcheck --manifest)
plus the not-applicable reasons in tools/not_applicable.json."""
import json, subprocess, os, sys
V = os.path.dirname(os.path.dirname(os.path.abspath(__file__)))
reg = json.loads(subprocess.check_output([os.path.join(V, "bin/wkcheck"), "--manifest"]))
props = [json.loads(l) for l in open(os.path.join(V, "properties.jsonl"))]
na_reasons = json.load(open(os.path.join(V, "tools/not_applicable.json")))
checks, na = [], []
for p in props:
    pid = p["id"]
    r = reg.get(pid)
    if r is None:
        na.append({"property_id": pid, "reason": na_reasons.get(pid, "structural clause identified in DESIGN.md §5 but no sound static checker is built for it yet; not claimed")})
        continue
    checks.append({
        "property_id": pid,
        "quick_cmd": f"bin/wkcheck --property {pid} --tier quick",
        "thorough_cmd": f"bin/wkcheck --property {pid} --tier thorough",
        "evidence_file": f"/verif/evidence/{pid}.json",
        "replay_cmd_template": "bin/wkcheck --replay {path}",
        "engine": "wkcheck",
        "level_claimed": {
            "category": "other",
            "text": r["explain"],
            "design_ref": f"DESIGN.md §5 {pid}",
        },
        "level_note": "Static analysis only (go/types + go/ssa over /repo's working tree; nothing is executed). Trusted: the Go type checker and SSA builder, the hand-confirmed rule tables (anchored functions, guard operand shapes, exception lists), and the third-party/runtime primitives named in the evidence assumptions. The behavioural property itself is NOT proved; only the structural necessary clause named in level_claimed.text is decided, on every path.",
        "technique": r["technique"],
    })
m = {
    "version": 1,
    "setup_cmd": "./build.sh",
    "hooks": {
        "guard": "verif",
        "enable": "none needed: the checks are static and read /repo's sources; no instrumentation is compiled in",
        "baseline_off_cmd": "cd /repo && go build ./... && go test -vet=off -count=1 -timeout 25m ./...",
        "source_commits": [],
        "add_only": True,
    },
    "engines": [{
        "name": "wkcheck",
        "path": "wkcheck/",
        "serves_properties": [c["property_id"] for c in checks],
        "kind_free_text": "repository-specific static analyser (go/packages + go/ssa + VTA call graph, x/tools v0.50.0): edge-dominance guards, who-may-write/call confinement, lock-set, monotone-store, ordering/pairing, field-coverage, enum-exhaustiveness, determinism reachability, codec sibling agreement; obligations keyed rule+construct; in-memory overlay mutants as self-test in the thorough tier",
    }],
    "checks": checks,
    "not_applicable": na,
    "notes": "All claimed properties are claimed at level 'other': a structural necessary condition decided statically on all paths; see DESIGN.md. known_findings.json lists genuine defects recorded rather than repaired.",
}
json.dump(m, open(os.path.join(V, "MANIFEST.json"), "w"), indent=1)
print(f"MANIFEST.json: {len(checks)} checks, {len(na)} not_applicable")
