#!/bin/bash
# usage: builderprompt.sh <group> C01 C03 ... > prompt
g=$1; shift
d=$(/verif/tools/mkbuilder.sh $g "$@")
ids="$*"
cat <<P
You are helping build a repository-specific STATIC ANALYSER ("wkcheck", written in Go on top of go/ssa) that decides structural clauses of semantic properties of the WuKongIM server whose source is at /repo (READ-ONLY for you: never modify, build into, or run git commands in /repo; never touch /verif).

Your working directory is $d. It contains:
  - wkcheck/            a private copy of the analyser (Go module; engines + two finished examples: props_c19.go, props_c30.go)
  - AUTHORING.md        HOW TO WRITE RULE TABLES - read this first, completely
  - design_engines.md   background on the rule engines
  - property_<ID>.json  the property records you are responsible for: $ids
  - design_<ID>.md      the design notes for each of those properties: which structural clauses ("R1, R2, ...") should be decided and with which engine. These notes were written from reading the code but may be imprecise about names/shapes - the code in /repo is the truth.

YOUR TASK: for each of the properties $ids write wkcheck/props_cNN.go (lower-case id, e.g. props_c01.go) that registers a PropSpec (ID, Pkgs, Technique, Explain, Run, Mutants) implementing as many of the design's rules for that property as can be stated SOUNDLY with the available engines, by reading the real code in /repo and using \`wkcheck --dump\` to see how the functions render. Requirements, in priority order:
  1. SILENT on the current /repo tree: \`VERIF_DIR=$d/out <binary> --property <ID> -v\` must end with violations=0 (every obligation held or exception). If a rule fires on the current tree, work out whether your rule is wrong (fix or drop the rule) or the code genuinely violates the property (then keep the rule, and describe the finding precisely in your final report - do not hide it).
  2. SENSITIVE: each rule must fire on a realistic bug in the property's mechanism (guard dropped/weakened, comparison operator changed, steps reordered, field forgotten, lock scope narrowed, new writer elsewhere, error dropped...). For every important rule add at least one Mutant (in-memory textual edit, see AUTHORING.md) and confirm with \`--selftest\` that it reports "fired". Aim for 4-10 mutants per property, at different code sites. Mutants must compile (result "broken-build" is a failed mutant) and must be genuine property violations, not harmless edits.
  3. ROBUST: no rule may depend on source text, line numbers, local variable names that are not parameters (use * wildcards), or statement order that does not matter. A behaviour-preserving refactor (renaming a local, adding logging, adding an unrelated early return) must not fire a rule. Prefer several precise obligations over one broad one. Cover the functions named in the property's "anchors.mechanism" list first - those are the mechanisms a bug-seeder would attack.
  4. HONEST: the Explain string says in 3-6 sentences which structural clause is decided and, after "NOT decided:", what is not. Technique is a few words naming the method (e.g. "static analysis: SSA edge-dominance guards + who-may-write confinement").
Use c.Min(rule, n) to pin the hand-confirmed number of obligations of rules that enumerate sites.

Build and run (offline):
  cd $d/wkcheck && export PATH=/opt/veriftools/go1.26.8/bin:\$PATH GOTOOLCHAIN=local GOFLAGS=-mod=mod GOPROXY=off GOWORK=off && go build -o $d/wk . 
  $d/wk --pkgs './pkg/some/pkg' --dump 'pkg/some/pkg.Type.Method'
  VERIF_DIR=$d/out $d/wk --property C01 -v
  VERIF_DIR=$d/out $d/wk --property C01 --selftest
  VERIF_DIR=$d/out $d/wk --property C01 --tier thorough      (whole-module load; confinement rules must stay silent there too)
Do NOT edit the shared engine files (core.go, guard.go, confine.go, order.go, lockset.go, mono.go, cover.go, determ.go, atomic.go, render.go, load.go, main.go, dump.go). If an engine is missing something, write a helper in your own props file (prefix its name with your property id, e.g. c01Helper) and mention it in the report; if you find an engine BUG, work around it and report it precisely (file, function, what is wrong).

When done, reply with a concise report: per property - the rules implemented (one line each with obligation counts), rules from the design you dropped and why, mutants and their self-test results, quick/thorough wall time, any genuine finding on the current tree, any engine gaps/bugs. The deliverables are the files $d/wkcheck/props_c*.go for your properties (leave them in place).
P
