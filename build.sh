#!/bin/bash
# Builds bin/wkcheck from /verif/wkcheck, offline, with the pre-installed go1.26.8 toolchain.
set -e
cd "$(dirname "$0")/wkcheck"
export PATH=/opt/veriftools/go1.26.8/bin:$PATH GOTOOLCHAIN=local GOFLAGS=-mod=mod GOPROXY=off GOWORK=off
mkdir -p ../bin ../evidence
go build -o ../bin/wkcheck .
echo "built $(cd ..; pwd)/bin/wkcheck"
